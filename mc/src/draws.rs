//! Further draws of the build-time random tables (thorough tier of C05 / C11): the harness and
//! the `chess` library are rebuilt into a scratch target directory (fresh OUT_DIR => the build
//! script draws new Zobrist constants and searches new magic multipliers), the rebuilt binary
//! runs the quick tier of the property as a child, and the scratch directory is removed again.

use crate::report::{Report, Sink, Violation};
use serde_json::{json, Value};
use std::process::Command;

pub fn run_draws(prop: &str, k: usize, rep: &mut Report, sink: &Sink) -> Result<(), String> {
    if std::env::var("VERIF_DRAW_CHILD").is_ok() {
        return Ok(());
    }
    let mut draws = Vec::new();
    for i in 0..k {
        let dir = format!("/tmp/verif-draw-{}-{}-{}", prop, std::process::id(), i);
        let _ = std::fs::remove_dir_all(&dir);
        let st = Command::new("cargo").args(["build", "--release", "--offline"]).current_dir(format!("{}/mc", crate::report::verif_dir())).env("CARGO_TARGET_DIR", &dir).env("CARGO_NET_OFFLINE", "true").output().map_err(|e| format!("cannot run cargo: {}", e))?;
        if !st.status.success() {
            let _ = std::fs::remove_dir_all(&dir);
            return Err(format!("rebuild for draw {} failed: {}", i, String::from_utf8_lossy(&st.stderr).lines().rev().take(8).collect::<Vec<_>>().join(" | ")));
        }
        let out = Command::new(format!("{}/release/mc", dir)).args([prop, "--tier", "quick"]).env("VERIF_DRAW_CHILD", "1").output();
        let _ = std::fs::remove_dir_all(&dir);
        let out = out.map_err(|e| format!("cannot run the rebuilt harness: {}", e))?;
        let text = String::from_utf8_lossy(&out.stdout).to_string();
        let line = text.lines().find(|l| l.starts_with("DRAW-RESULT ")).ok_or_else(|| format!("draw {}: child gave no result (status {:?}): {}", i, out.status.code(), text.lines().rev().take(5).collect::<Vec<_>>().join(" | ")))?;
        let v: Value = serde_json::from_str(&line["DRAW-RESULT ".len()..]).map_err(|e| format!("draw {}: bad child result: {}", i, e))?;
        if v["vacuous"].as_array().map(|a| !a.is_empty()).unwrap_or(false) {
            return Err(format!("draw {}: vacuous child run", i));
        }
        rep.states += v["states"].as_u64().unwrap_or(0);
        rep.transitions += v["transitions"].as_u64().unwrap_or(0);
        if let Some(fv) = v["first_violations"].as_array() {
            for x in fv {
                sink.push(Violation {
                    prop: prop.to_string(),
                    class: format!("{}(other-draw)", x["class"].as_str().unwrap_or("?")),
                    seed: x["seed"].as_str().unwrap_or("").to_string(),
                    path: x["path"].as_array().map(|a| a.iter().filter_map(|s| s.as_str().map(|s| s.to_string())).collect()).unwrap_or_default(),
                    detail: format!("in rebuilt draw {} of the build-time tables: {}", i, x["detail"].as_str().unwrap_or("")),
                    extra: json!({"kind": "other-draw", "inner": x}),
                });
            }
        }
        draws.push(json!({"draw": i, "states": v["states"], "violations": v["violations"], "table_digest": v["counters"]["zobrist_table_digest_low32"]}));
    }
    rep.add("rebuilt_table_draws_examined", k as u64);
    rep.notes.push(format!("further draws of the build-time tables: {}", Value::Array(draws)));
    Ok(())
}
