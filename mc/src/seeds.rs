//! Seed positions (the input alphabet of the tree walks) and generated families.

use crate::refchess::*;

#[derive(Clone, Debug)]
pub struct Seed {
    pub name: &'static str,
    pub fen: &'static str,
    /// walk depth in the quick / thorough tier
    pub dq: u32,
    pub dt: u32,
    /// what interaction this seed forces (documentation, copied into evidence samples)
    pub why: &'static str,
}

const fn s(name: &'static str, fen: &'static str, dq: u32, dt: u32, why: &'static str) -> Seed {
    Seed { name, fen, dq, dt, why }
}

pub const TREE_SEEDS: &[Seed] = &[
    // --- the published perft suite ---
    s("startpos", "rnbqkbnr/pppppppp/8/8/8/8/PPPPPPPP/RNBQKBNR w KQkq - 0 1", 3, 4, "initial position; double steps; ep transpositions at depth 4"),
    s("kiwipete", "r3k2r/p1ppqpb1/bn2pnp1/3PN3/1p2P3/2N2Q1p/PPPBBPPP/R3K2R w KQkq - 0 1", 2, 3, "castling both ways, ep, promotions, pins, discovered checks"),
    s("pos3", "8/2p5/3p4/KP5r/1R3p1k/8/4P1P1/8 w - - 0 1", 3, 5, "rank-pinned en passant, rook endgame checks"),
    s("pos4", "r3k2r/Pppp1ppp/1b3nbN/nP6/BBP1P3/q4N2/Pp1P2PP/R2Q1RK1 w kq - 0 1", 2, 4, "promotions with capture on rook home squares, in-check start"),
    s("pos4m", "r2q1rk1/pP1p2pp/Q4n2/bbp1p3/Np6/1B3NBn/pPPP1PPP/R3K2R b KQ - 0 1", 2, 3, "mirror of pos4: black to move"),
    s("pos5", "rnbq1k1r/pp1Pbppp/2p5/8/2B5/8/PPP1NnPP/RNBQK2R w KQ - 1 8", 2, 3, "promotion with check, castling rights with attacked transit"),
    s("pos6", "r4rk1/1pp1qppp/p1np1n2/2b1p1B1/2B1P1b1/P1NP1N2/1PP1QPPP/R4RK1 w - - 0 10", 2, 3, "dense middlegame, pins by bishops"),
    // --- targeted seeds ---
    s("promo-race", "n1n5/PPPk4/8/8/8/8/4Kppp/5N1N b - - 0 1", 2, 4, "all promotion variants with and without capture, both colours, with checks"),
    s("ep-rank-pin-pre", "8/3p4/8/K1P4r/8/8/8/7k b - - 0 1", 3, 5, "d7d5 then cxd6 e.p. would lift both pawns off the 5th rank (illegal)"),
    s("ep-rank-pin", "8/8/8/K1Pp3r/8/8/8/7k w - d6 0 1", 2, 4, "set-up with ep target: rank-pinned en passant"),
    s("ep-diag-pin", "b6k/8/8/3pP3/8/8/8/7K w - d6 0 1", 2, 4, "en passant removing the victim opens the a8-h1 diagonal onto the king (illegal)"),
    s("ep-file-pin", "4r2k/8/8/3pP3/8/8/8/4K3 w - d6 0 1", 2, 4, "capturing pawn is pinned on the e-file (illegal ep)"),
    s("ep-legal-both", "4k3/8/8/2PpP3/8/8/8/4K3 w - d6 0 1", 2, 4, "two capturers, both legal"),
    s("ep-black", "4k3/8/8/8/2pPp3/8/8/4K3 b - d3 0 1", 2, 4, "black en passant from both sides"),
    s("ep-check-evasion", "8/8/8/2k5/3Pp3/8/8/4K3 b - d3 0 1", 2, 4, "double-stepped pawn gives check; ep capture is an evasion"),
    s("ep-disc-check", "3k4/8/8/8/2pP4/8/8/3RK3 b - d3 0 1", 2, 4, "ep capture discovers check along the d-file... for the capturer's own king (illegal) "),
    s("ep-transpose", "4k3/1p5p/8/8/8/8/P7/4K3 w - - 0 1", 4, 6, "a4 h6 a5 b5 vs a4 b5 a5 h6: same placement, different ep target"),
    s("ep-transpose-castle", "r3k2r/1p5p/8/8/8/8/P6P/R3K2R w KQkq - 0 1", 2, 4, "ep transpositions combined with castling-rights changes"),
    s("castle-base-w", "r3k2r/8/8/8/8/8/8/R3K2R w KQkq - 0 1", 3, 4, "castling both sides both colours, rook takes rook on home squares"),
    s("castle-base-b", "r3k2r/8/8/8/8/8/8/R3K2R b KQkq - 0 1", 2, 4, "same, black to move"),
    s("castle-attacked", "r3k2r/8/8/8/8/5q2/8/R3K2R w KQkq - 0 1", 2, 3, "queen attacks f1/d1/e2: castling through check forbidden"),
    s("castle-b1-attacked", "4k3/8/8/8/8/8/1r6/R3K2R w KQ - 0 1", 2, 4, "b1 attacked: queenside castling still legal"),
    s("castle-promo-rook", "r3k2r/1P4P1/8/8/8/8/1p4p1/R3K2R w KQkq - 0 1", 2, 3, "promotion capturing a home rook that still carries rights"),
    s("promo-vs-rooks", "r3k2r/1P6/8/8/8/8/8/4K3 w kq - 0 1", 6, 8, "promotion capturing a home rook; later the other rook can reach the vacated corner (stale rights would allow an illegal castle 8 plies on)"),
    s("castle-check", "5k2/8/8/8/8/8/8/4K2R w K - 0 1", 2, 4, "O-O gives check"),
    s("castle-mate", "2rkr3/2p1p3/8/8/8/8/8/R3K3 w Q - 0 1", 2, 4, "O-O-O gives mate"),
    s("kqk-corner", "7k/8/5K2/8/8/8/8/6Q1 w - - 0 1", 3, 5, "mates and stalemates within 1-3 plies"),
    s("kqk-corner2", "k7/8/1K6/8/8/8/8/6Q1 w - - 0 1", 3, 4, "mates and stalemates"),
    s("krk", "8/8/8/8/8/k7/8/K6R w - - 0 1", 3, 5, "rook endgame, tempo moves"),
    s("kpk", "8/8/8/8/8/4k3/4P3/4K3 w - - 0 1", 4, 6, "pawn endgame"),
    s("kpk-stalemate", "k7/P7/1K6/8/8/8/8/8 b - - 0 1", 1, 1, "stalemated side to move"),
    s("mated", "rnb1kbnr/pppp1ppp/8/4p3/6Pq/5P2/PPPPP2P/RNBQKBNR w KQkq - 1 3", 1, 1, "fool's mate: mated side to move"),
    s("san-knights", "4k3/8/8/8/8/2N5/8/4K1N1 w - - 0 1", 2, 4, "two knights on different files and ranks reach the same square"),
    s("san-rooks", "R6R/8/8/8/8/4k3/8/4K3 w - - 0 1", 2, 3, "rook pair on a rank: file disambiguation"),
    s("san-rooks-file", "R7/4k3/8/8/8/8/8/R3K3 w - - 0 1", 2, 3, "rook pair on a file: rank disambiguation"),
    s("san-queens", "8/k7/8/8/4Q2Q/8/8/K6Q w - - 0 1", 2, 3, "three queens: file, rank and square disambiguation"),
    s("san-pinned-rival", "4k3/4r3/8/8/8/1N6/4N3/4K3 w - - 0 1", 2, 4, "rival knight is pinned and must not cause disambiguation"),
    s("san-bishops", "4k3/8/8/8/8/8/1B3B2/4K3 w - - 0 1", 2, 3, "two bishops (promoted-like, same colour complex) reach the same square"),
    s("underpromo", "8/5P1k/8/8/8/8/8/K7 w - - 0 1", 2, 4, "promotions, under-promotion check patterns"),
    s("underpromo-mate", "7k/5P2/6K1/8/8/8/8/8 w - - 0 1", 2, 3, "promotion with capture-free mate / stalemate distinctions"),
    s("underpromo-knight-mates", "7b/5Ppk/7p/8/8/1B6/8/6K1 w - - 0 1", 2, 3, "promoting to a knight is mate, promoting to a queen is not (a coordinate pair must still give the queen)"),
    s("double-check", "4k3/8/8/8/8/8/4N3/4RK2 w - - 0 1", 2, 4, "knight moves discover check, some give double check"),
    s("pinned-pieces", "4k3/8/8/8/1b6/2N5/3P4/r2BK2R w K - 0 1", 2, 4, "absolute pins on diagonal and rank"),
    s("in-check-single", "4k3/8/8/8/8/8/3PPP2/r3K3 w - - 0 1", 2, 4, "in check, very few legal moves"),
];

pub fn depth_for(seed: &Seed, tier: &str) -> u32 {
    if tier == "thorough" {
        seed.dt
    } else {
        seed.dq
    }
}

/// Validate all seeds (consistency by the model).  A failure is a machinery error.
pub fn validate_seeds() -> Result<(), String> {
    for sd in TREE_SEEDS {
        let p = Pos::from_fen(sd.fen)?;
        if !p.is_consistent() {
            return Err(format!("seed {} is not a consistent position: {}", sd.name, sd.fen));
        }
    }
    Ok(())
}

// ------------------------------------------------------------------------------------
// Generated families: every member is a consistent set-up position, explored at depth 1-2.

/// Castle matrix: for each colour to move, every subset of the 4 rights (with rooks present for
/// the rights held; rooks also present/absent on the other corners), one enemy attacker of each
/// type on each square of ranks 2..7 (for white to move; mirrored for black), and each of the
/// b/c/d/f/g home-rank squares optionally occupied by an own knight (5 bits = 32 blockers).
/// Enumerated completely unless `stride` > 1 (then the evidence says so).
pub fn castle_matrix(full: bool) -> Vec<Pos> {
    let mut out = Vec::new();
    for stm in [Side::White, Side::Black] {
        let (home_rank, us) = if stm == Side::White { (0i8, Side::White) } else { (7i8, Side::Black) };
        let them = us.other();
        let own_bits = if us == Side::White { [WK, WQ] } else { [BK, BQ] };
        for rights_sel in 0..4u8 {
            // rights of the side to move: 0 none, 1 K, 2 Q, 3 both
            let mut base = Pos::empty();
            base.stm = stm;
            let e = mk_sq(4, home_rank).unwrap();
            base.sq[e as usize] = Some((Kind::King, us));
            base.sq[mk_sq(7, home_rank).unwrap() as usize] = Some((Kind::Rook, us));
            base.sq[mk_sq(0, home_rank).unwrap() as usize] = Some((Kind::Rook, us));
            if rights_sel & 1 != 0 {
                base.castle |= own_bits[0];
            }
            if rights_sel & 2 != 0 {
                base.castle |= own_bits[1];
            }
            // enemy king far away on the opposite home rank corner region
            let ek_rank = 7 - home_rank;
            let blockers: Vec<u8> = if full { (0..32).collect() } else { vec![0, 1, 2, 4, 8, 16, 31] };
            for blk in blockers {
                let mut b = base.clone();
                for (i, f) in [1i8, 2, 3, 5, 6].iter().enumerate() {
                    if blk & (1 << i) != 0 {
                        b.sq[mk_sq(*f, home_rank).unwrap() as usize] = Some((Kind::Knight, us));
                    }
                }
                for ak in [Kind::Queen, Kind::Rook, Kind::Bishop, Kind::Knight, Kind::Pawn, Kind::King] {
                    for asq in 0..64u8 {
                        let ar = rank_of(asq);
                        if b.sq[asq as usize].is_some() {
                            continue;
                        }
                        if ak == Kind::Pawn && (ar == 0 || ar == 7) {
                            continue;
                        }
                        let mut p = b.clone();
                        p.sq[asq as usize] = Some((ak, them));
                        if ak != Kind::King {
                            // enemy king: a fixed quiet square
                            let mut placed = false;
                            for kf in [7i8, 0, 6, 1] {
                                let ks = mk_sq(kf, ek_rank).unwrap();
                                if p.sq[ks as usize].is_none() {
                                    p.sq[ks as usize] = Some((Kind::King, them));
                                    if p.is_consistent() {
                                        placed = true;
                                        break;
                                    }
                                    p.sq[ks as usize] = None;
                                }
                            }
                            if !placed {
                                continue;
                            }
                        } else if !p.is_consistent() {
                            continue;
                        }
                        // the same placement with the attacker's side to move (so that captures of
                        // home rooks / king approaches by every kind of piece are depth-0 transitions)
                        let mut flipped = p.clone();
                        flipped.stm = them;
                        if flipped.is_consistent() {
                            out.push(flipped);
                        }
                        out.push(p);
                    }
                }
            }
        }
    }
    out
}

/// En-passant matrix: every file of the double-stepped pawn x capturers on left / right / both x
/// own king on every square x an enemy rook / bishop / queen on every square of the capture rank,
/// of the victim's file and of the diagonals through victim and capturers (or none).
/// `full` = all king squares; otherwise kings restricted to the capture rank, the two adjacent
/// ranks and the home rank.
pub fn ep_matrix(full: bool) -> Vec<Pos> {
    let mut out = Vec::new();
    for stm in [Side::White, Side::Black] {
        // stm is the capturer
        let them = stm.other();
        let (cap_rank, ep_rank, enemy_home) = if stm == Side::White { (4i8, 5i8, 7i8) } else { (3i8, 2i8, 0i8) };
        for vf in 0..8i8 {
            for caps in 1..4u8 {
                let lf = vf - 1;
                let rf = vf + 1;
                if (caps & 1 != 0 && lf < 0) || (caps & 2 != 0 && rf > 7) {
                    continue;
                }
                let mut base = Pos::empty();
                base.stm = stm;
                let victim = mk_sq(vf, cap_rank).unwrap();
                base.sq[victim as usize] = Some((Kind::Pawn, them));
                base.ep = mk_sq(vf, ep_rank);
                if caps & 1 != 0 {
                    base.sq[mk_sq(lf, cap_rank).unwrap() as usize] = Some((Kind::Pawn, stm));
                }
                if caps & 2 != 0 {
                    base.sq[mk_sq(rf, cap_rank).unwrap() as usize] = Some((Kind::Pawn, stm));
                }
                for ks in 0..64u8 {
                    if base.sq[ks as usize].is_some() || Some(ks) == base.ep {
                        continue;
                    }
                    let kr = rank_of(ks);
                    if !full && !((kr - cap_rank).abs() <= 1 || kr == 7 - enemy_home) {
                        continue;
                    }
                    // the square behind the victim (its start square) must stay empty
                    let behind = mk_sq(vf, if stm == Side::White { 6 } else { 1 }).unwrap();
                    if ks == behind {
                        continue;
                    }
                    let mut withk = base.clone();
                    withk.sq[ks as usize] = Some((Kind::King, stm));
                    // enemy king: first consistent square from a fixed list
                    let mut ek_opts: Vec<Sq> = Vec::new();
                    for f in [0i8, 7, 3, 4] {
                        ek_opts.push(mk_sq(f, enemy_home).unwrap());
                    }
                    // candidate attackers: none, or R/B/Q on lines through the pawns
                    let mut line_sqs: Vec<Sq> = Vec::new();
                    for t in 0..64u8 {
                        if withk.sq[t as usize].is_some() || Some(t) == withk.ep || t == behind {
                            continue;
                        }
                        let on_rank = rank_of(t) == cap_rank;
                        let on_line = |a: Sq, b: Sq| -> bool {
                            let (df, dr) = (file_of(a) - file_of(b), rank_of(a) - rank_of(b));
                            df == 0 || dr == 0 || df.abs() == dr.abs()
                        };
                        // lines through the king are the only ones that matter for pins
                        if on_rank || on_line(t, ks) {
                            line_sqs.push(t);
                        }
                    }
                    let mut variants: Vec<Option<(Kind, Sq)>> = vec![None];
                    for &t in &line_sqs {
                        for ak in [Kind::Rook, Kind::Bishop, Kind::Queen] {
                            variants.push(Some((ak, t)));
                        }
                    }
                    for v in variants {
                        let mut p = withk.clone();
                        if let Some((ak, t)) = v {
                            p.sq[t as usize] = Some((ak, them));
                        }
                        let mut ok = false;
                        for &eks in &ek_opts {
                            if p.sq[eks as usize].is_some() || Some(eks) == p.ep {
                                continue;
                            }
                            p.sq[eks as usize] = Some((Kind::King, them));
                            if p.is_consistent() {
                                ok = true;
                                break;
                            }
                            p.sq[eks as usize] = None;
                        }
                        if ok {
                            out.push(p);
                        }
                    }
                }
            }
        }
    }
    out
}

/// 3-men family: K, k and one further piece of either colour on all squares, both sides to move.
pub fn three_men() -> Vec<Pos> {
    let mut out = Vec::new();
    for wk in 0..64u8 {
        for bk in 0..64u8 {
            if wk == bk {
                continue;
            }
            if (file_of(wk) - file_of(bk)).abs() <= 1 && (rank_of(wk) - rank_of(bk)).abs() <= 1 {
                continue;
            }
            for x in 0..64u8 {
                if x == wk || x == bk {
                    continue;
                }
                for k in [Kind::Pawn, Kind::Knight, Kind::Bishop, Kind::Rook, Kind::Queen] {
                    if k == Kind::Pawn && (rank_of(x) == 0 || rank_of(x) == 7) {
                        continue;
                    }
                    for side in [Side::White, Side::Black] {
                        for stm in [Side::White, Side::Black] {
                            let mut p = Pos::empty();
                            p.sq[wk as usize] = Some((Kind::King, Side::White));
                            p.sq[bk as usize] = Some((Kind::King, Side::Black));
                            p.sq[x as usize] = Some((k, side));
                            p.stm = stm;
                            if p.is_consistent() {
                                out.push(p);
                            }
                        }
                    }
                }
            }
        }
    }
    out
}

/// Playout seeds: positions met along deterministic long games (no randomness: the k-th legal
/// move is chosen by a fixed arithmetic rule that favours pawn moves and rotates through the
/// promotion pieces), sampled every `every` plies.  They widen the material configurations of
/// the tree seeds (several promoted pieces, under-promotions, lost castling rights, bare-ish
/// endgames deep into a game).  Each is a seed of a depth-1/2 tree like any other.
pub fn playout_seeds(playouts: u32, max_plies: u32, every: u32) -> Vec<(String, Pos)> {
    let mut out = Vec::new();
    let starts = ["rnbqkbnr/pppppppp/8/8/8/8/PPPPPPPP/RNBQKBNR w KQkq - 0 1", "r3k2r/p1ppqpb1/bn2pnp1/3PN3/1p2P3/2N2Q1p/PPPBBPPP/R3K2R w KQkq - 0 1", "n1n5/PPPk4/8/8/8/8/4Kppp/5N1N b - - 0 1", "4k3/pppppppp/8/8/8/8/PPPPPPPP/4K3 w - - 0 1"];
    let mut seen = std::collections::HashSet::new();
    for k in 0..playouts {
        let mut p = Pos::from_fen(starts[(k as usize) % starts.len()]).unwrap();
        let mut x: u64 = 0x9E3779B97F4A7C15u64.wrapping_mul(k as u64 + 1);
        for ply in 0..max_plies {
            let legal = p.legal_moves();
            if legal.is_empty() {
                break;
            }
            x = x.wrapping_mul(6364136223846793005).wrapping_add(1442695040888963407);
            // prefer pawn moves two times out of three so that pawns get through; never capture a
            // king-adjacent defender preferentially etc. — the rule is arbitrary but fixed
            let pawn: Vec<&Move> = legal.iter().filter(|m| m.moved == Kind::Pawn).collect();
            let pick = if !pawn.is_empty() && (x >> 33) % 3 != 0 { pawn[((x >> 40) as usize) % pawn.len()] } else { &legal[((x >> 40) as usize) % legal.len()] };
            p = p.make(pick);
            p.halfmove = p.halfmove.min(60); // keep clear of the move-count draw: the clock is not what these seeds are for
            if (ply + 1) % every == 0 && seen.insert(crate::bind::canon(&p)) {
                let mut q = p.clone();
                q.halfmove = 0;
                q.ply = 0;
                out.push((format!("playout{}@{}", k, ply + 1), q));
            }
        }
    }
    out
}

/// Terminal family: mated and stalemated positions in which the side to move has only its king
/// and ONE pawn standing next to the king (free, blocked or pinned), against king + a line piece
/// on a queen-line through the mover's king + one further piece within three squares of that king.  Enumerated completely for the
/// mover's king on the given squares; only the terminal members are returned.
pub fn terminal_family(king_squares: &[Sq]) -> Vec<Pos> {
    use rayon::prelude::*;
    let jobs: Vec<(Side, Sq)> = [Side::White, Side::Black].iter().flat_map(|s| king_squares.iter().map(move |k| (*s, *k))).collect();
    let res: Vec<Vec<Pos>> = jobs
        .par_iter()
        .map(|(us, ks)| {
            let them = us.other();
            let mut out = Vec::new();
            let (kf, kr) = (file_of(*ks), rank_of(*ks));
            for (df, dr) in [(1i8, 0i8), (1, 1), (0, 1), (-1, 1), (-1, 0), (-1, -1), (0, -1), (1, -1)] {
                let ps = match mk_sq(kf + df, kr + dr) {
                    Some(p) if rank_of(p) != 0 && rank_of(p) != 7 => p,
                    _ => continue,
                };
                // line piece beyond the pawn on the same line (pin geometry) or anywhere on a queen-line through the king
                let mut line_sqs: Vec<Sq> = Vec::new();
                for (lf, lr) in [(1i8, 0i8), (1, 1), (0, 1), (-1, 1), (-1, 0), (-1, -1), (0, -1), (1, -1)] {
                    let (mut f, mut r) = (kf + lf, kr + lr);
                    while let Some(t) = mk_sq(f, r) {
                        if t != ps {
                            line_sqs.push(t);
                        }
                        f += lf;
                        r += lr;
                    }
                }
                for ek in 0..64u8 {
                    if ek == *ks || ek == ps || ((file_of(ek) - kf).abs() <= 1 && (rank_of(ek) - kr).abs() <= 1) {
                        continue;
                    }
                    for &ls in &line_sqs {
                        if ls == ek {
                            continue;
                        }
                        for lk in [Kind::Queen, Kind::Rook, Kind::Bishop] {
                            let mut base = Pos::empty();
                            base.stm = *us;
                            base.sq[*ks as usize] = Some((Kind::King, *us));
                            base.sq[ps as usize] = Some((Kind::Pawn, *us));
                            base.sq[ek as usize] = Some((Kind::King, them));
                            base.sq[ls as usize] = Some((lk, them));
                            for xs in 0..64u8 {
                                if base.sq[xs as usize].is_some() || (file_of(xs) - kf).abs() > 3 || (rank_of(xs) - kr).abs() > 3 {
                                    continue;
                                }
                                for xk in [Kind::Queen, Kind::Rook, Kind::Bishop, Kind::Knight] {
                                    let mut p = base.clone();
                                    p.sq[xs as usize] = Some((xk, them));
                                    if p.has_legal_move() {
                                        continue;
                                    }
                                    if p.is_consistent() {
                                        out.push(p);
                                    }
                                }
                            }
                        }
                    }
                }
            }
            out
        })
        .collect();
    res.into_iter().flatten().collect()
}

/// Sparse-position family for the search properties: `n` consistent positions with 6..9 men
/// produced by a fixed linear-congruential sequence (no run-time randomness: the family is the
/// same on every run), side to move not in check, 4..26 legal moves.
pub fn sparse_positions(n: usize) -> Vec<Pos> {
    let mut out = Vec::new();
    let mut x: u64 = 0x2545F4914F6CDD1D;
    let mut next = move || {
        x = x.wrapping_mul(6364136223846793005).wrapping_add(1442695040888963407);
        (x >> 33) as u32
    };
    let kinds = [Kind::Queen, Kind::Rook, Kind::Rook, Kind::Bishop, Kind::Bishop, Kind::Knight, Kind::Knight, Kind::Pawn, Kind::Pawn, Kind::Pawn, Kind::Pawn];
    let mut guard = 0;
    while out.len() < n && guard < 200_000 {
        guard += 1;
        let men = 6 + (next() % 4) as usize;
        let mut p = Pos::empty();
        let wk = (next() % 64) as u8;
        let bk = (next() % 64) as u8;
        if wk == bk || ((file_of(wk) - file_of(bk)).abs() <= 1 && (rank_of(wk) - rank_of(bk)).abs() <= 1) {
            continue;
        }
        p.sq[wk as usize] = Some((Kind::King, Side::White));
        p.sq[bk as usize] = Some((Kind::King, Side::Black));
        let mut ok = true;
        for i in 0..(men - 2) {
            let k = kinds[(next() as usize) % kinds.len()];
            let s = (next() % 64) as u8;
            let side = if (i + (next() as usize)) % 2 == 0 { Side::White } else { Side::Black };
            if p.sq[s as usize].is_some() || (k == Kind::Pawn && (rank_of(s) == 0 || rank_of(s) == 7)) {
                ok = false;
                break;
            }
            p.sq[s as usize] = Some((k, side));
        }
        if !ok {
            continue;
        }
        p.stm = if next() % 2 == 0 { Side::White } else { Side::Black };
        if !p.is_consistent() || p.in_check(p.stm) {
            continue;
        }
        let l = p.legal_moves().len();
        if !(4..=26).contains(&l) {
            continue;
        }
        out.push(p);
    }
    out
}

/// En-passant discovery family: the capture removes a pawn that stood between one of the
/// capturer's own line pieces and the ENEMY king (discovered check or mate through the captured
/// pawn's square, the capturing pawn's origin or its destination).  For every file of the
/// double-stepped pawn, capturers on the left / right / both, the enemy king on every square of
/// every queen-line through the victim's square, and an own bishop / rook / queen on every square
/// of the opposite ray.  Own king on the first consistent square of a fixed list.
pub fn ep_discovery() -> Vec<Pos> {
    let mut out = Vec::new();
    for stm in [Side::White, Side::Black] {
        let them = stm.other();
        let (cap_rank, ep_rank, start_rank) = if stm == Side::White { (4i8, 5i8, 6i8) } else { (3i8, 2i8, 1i8) };
        for vf in 0..8i8 {
            for caps in 1..4u8 {
                let (lf, rf) = (vf - 1, vf + 1);
                if (caps & 1 != 0 && lf < 0) || (caps & 2 != 0 && rf > 7) {
                    continue;
                }
                let mut base = Pos::empty();
                base.stm = stm;
                let victim = mk_sq(vf, cap_rank).unwrap();
                base.sq[victim as usize] = Some((Kind::Pawn, them));
                base.ep = mk_sq(vf, ep_rank);
                let behind = mk_sq(vf, start_rank).unwrap();
                if caps & 1 != 0 {
                    base.sq[mk_sq(lf, cap_rank).unwrap() as usize] = Some((Kind::Pawn, stm));
                }
                if caps & 2 != 0 {
                    base.sq[mk_sq(rf, cap_rank).unwrap() as usize] = Some((Kind::Pawn, stm));
                }
                for (df, dr) in [(1i8, 0i8), (1, 1), (0, 1), (-1, 1), (-1, 0), (-1, -1), (0, -1), (1, -1)] {
                    // enemy king somewhere along (df, dr) from the victim, own slider along the opposite ray
                    let mut ksqs = Vec::new();
                    let (mut f, mut r) = (vf + df, cap_rank + dr);
                    while let Some(t) = mk_sq(f, r) {
                        ksqs.push(t);
                        f += df;
                        r += dr;
                    }
                    let mut ssqs = Vec::new();
                    let (mut f, mut r) = (vf - df, cap_rank - dr);
                    while let Some(t) = mk_sq(f, r) {
                        ssqs.push(t);
                        f -= df;
                        r -= dr;
                    }
                    for &ek in &ksqs {
                        for &ss in &ssqs {
                            for sk in [Kind::Bishop, Kind::Rook, Kind::Queen] {
                                let mut p = base.clone();
                                if p.sq[ek as usize].is_some() || p.sq[ss as usize].is_some() || Some(ek) == p.ep || Some(ss) == p.ep || ek == behind || ss == behind {
                                    continue;
                                }
                                p.sq[ek as usize] = Some((Kind::King, them));
                                p.sq[ss as usize] = Some((sk, stm));
                                let home = if stm == Side::White { 0i8 } else { 7i8 };
                                for kf in [0i8, 7, 3, 4, 1, 6] {
                                    let ks = mk_sq(kf, home).unwrap();
                                    if p.sq[ks as usize].is_some() {
                                        continue;
                                    }
                                    p.sq[ks as usize] = Some((Kind::King, stm));
                                    if p.is_consistent() {
                                        out.push(p.clone());
                                        break;
                                    }
                                    p.sq[ks as usize] = None;
                                }
                            }
                        }
                    }
                }
            }
        }
    }
    out
}

/// "En passant is the only reply": a pawn's double step gives check, and the only legal move of
/// the checked side is to capture that pawn en passant (so the position is NOT a mate, the double
/// step is a check and not a mating move). Enumerated: pusher (2) x pawn file (8) x checked king
/// on either square the pawn attacks x capturing pawn on either side x pusher's king on any
/// square x one more pusher piece (Q, R, B, N) on any square; kept when the model says every legal
/// move is an en-passant capture. Returns the positions after the double step, and the positions
/// before it (whose move list contains the double step to be annotated).
pub fn ep_only_reply() -> (Vec<Pos>, Vec<Pos>) {
    use rayon::prelude::*;
    let jobs: Vec<(Side, i8)> = [Side::White, Side::Black].iter().flat_map(|s| (0..8i8).map(move |f| (*s, f))).collect();
    let res: Vec<(Vec<Pos>, Vec<Pos>)> = jobs
        .par_iter()
        .map(|(pusher, f)| {
            let mover = pusher.other();
            let (from_r, mid_r, to_r, king_r) = if *pusher == Side::White { (1i8, 2i8, 3i8, 4i8) } else { (6i8, 5i8, 4i8, 3i8) };
            let (mut after, mut before) = (Vec::new(), Vec::new());
            let to = mk_sq(*f, to_r).unwrap();
            let mid = mk_sq(*f, mid_r).unwrap();
            let from = mk_sq(*f, from_r).unwrap();
            for kdf in [-1i8, 1] {
                let ks = match mk_sq(*f + kdf, king_r) {
                    Some(k) => k,
                    None => continue,
                };
                for cdf in [-1i8, 1] {
                    let cs = match mk_sq(*f + cdf, to_r) {
                        Some(c) => c,
                        None => continue,
                    };
                    for pk in 0..64u8 {
                        if [to, mid, from, ks, cs].contains(&pk) || ((file_of(pk) - file_of(ks)).abs() <= 1 && (rank_of(pk) - rank_of(ks)).abs() <= 1) {
                            continue;
                        }
                        for xs in 0..64u8 {
                            if [to, mid, from, ks, cs, pk].contains(&xs) {
                                continue;
                            }
                            for xk in [Kind::Queen, Kind::Rook, Kind::Bishop, Kind::Knight] {
                                let mut p = Pos::empty();
                                p.stm = mover;
                                p.sq[to as usize] = Some((Kind::Pawn, *pusher));
                                p.sq[ks as usize] = Some((Kind::King, mover));
                                p.sq[cs as usize] = Some((Kind::Pawn, mover));
                                p.sq[pk as usize] = Some((Kind::King, *pusher));
                                p.sq[xs as usize] = Some((xk, *pusher));
                                p.ep = Some(mid);
                                let legal = p.legal_moves();
                                if legal.is_empty() || legal.iter().any(|m| m.kind != MoveKind::EnPassant) || !p.is_consistent() {
                                    continue;
                                }
                                let mut q = p.clone();
                                q.stm = *pusher;
                                q.ep = None;
                                q.sq[to as usize] = None;
                                q.sq[from as usize] = Some((Kind::Pawn, *pusher));
                                if q.is_consistent() {
                                    before.push(q);
                                }
                                after.push(p);
                            }
                        }
                    }
                }
            }
            (after, before)
        })
        .collect();
    let mut a = Vec::new();
    let mut b = Vec::new();
    for (x, y) in res {
        a.extend(x);
        b.extend(y);
    }
    (a, b)
}

/// "Castle-shaped" moves by pieces that are not castling: a rook or queen of the side to move
/// standing on e1 or e8 and sliding two files (to the c- or g-file), in positions where the mover
/// still holds some castling rights (own king and rooks at home) — including a piece on the
/// OPPONENT's king square — plus the same with the king itself castling. Every subset of the
/// mover's rights, both colours, both squares, both directions.
pub fn castle_shaped_moves() -> Vec<Pos> {
    let mut out = Vec::new();
    for mover in [Side::White, Side::Black] {
        let opp = mover.other();
        let (home_r, far_r) = if mover == Side::White { (0i8, 7i8) } else { (7i8, 0i8) };
        let (kbit, qbit) = if mover == Side::White { (WK, WQ) } else { (BK, BQ) };
        for rights in 0..4u8 {
            for pk in [Kind::Rook, Kind::Queen] {
                // the slider stands on the far e-square (the opponent's king home); the opponent's king is elsewhere
                for opp_king in [mk_sq(1, far_r - (far_r - home_r).signum() * 2).unwrap(), mk_sq(6, far_r - (far_r - home_r).signum() * 3).unwrap()] {
                    let mut p = Pos::empty();
                    p.stm = mover;
                    p.sq[mk_sq(4, home_r).unwrap() as usize] = Some((Kind::King, mover));
                    p.sq[mk_sq(0, home_r).unwrap() as usize] = Some((Kind::Rook, mover));
                    p.sq[mk_sq(7, home_r).unwrap() as usize] = Some((Kind::Rook, mover));
                    p.sq[mk_sq(4, far_r).unwrap() as usize] = Some((pk, mover));
                    p.sq[opp_king as usize] = Some((Kind::King, opp));
                    p.castle = (if rights & 1 != 0 { kbit } else { 0 }) | (if rights & 2 != 0 { qbit } else { 0 });
                    if p.is_consistent() {
                        out.push(p.clone());
                    }
                    // the same with an enemy piece to capture on the g- / c-file of the far rank
                    for tf in [2i8, 6] {
                        let mut q = p.clone();
                        let t = mk_sq(tf, far_r).unwrap();
                        if q.sq[t as usize].is_none() {
                            q.sq[t as usize] = Some((Kind::Knight, opp));
                            if q.is_consistent() {
                                out.push(q);
                            }
                        }
                    }
                }
            }
            // a slider of the mover on its OWN e-square with the king off it (no rights then), and
            // the opponent still holding rights at home
            for pk in [Kind::Rook, Kind::Queen] {
                let mut p = Pos::empty();
                p.stm = mover;
                p.sq[mk_sq(4, home_r).unwrap() as usize] = Some((pk, mover));
                p.sq[mk_sq(3, home_r + (far_r - home_r).signum() * 2).unwrap() as usize] = Some((Kind::King, mover));
                p.sq[mk_sq(4, far_r).unwrap() as usize] = Some((Kind::King, opp));
                p.sq[mk_sq(0, far_r).unwrap() as usize] = Some((Kind::Rook, opp));
                p.sq[mk_sq(7, far_r).unwrap() as usize] = Some((Kind::Rook, opp));
                let (okbit, oqbit) = if opp == Side::White { (WK, WQ) } else { (BK, BQ) };
                p.castle = (if rights & 1 != 0 { okbit } else { 0 }) | (if rights & 2 != 0 { oqbit } else { 0 });
                if p.is_consistent() {
                    out.push(p);
                }
            }
        }
    }
    out
}

/// Two pawns of the side to move that can capture-promote on the SAME square (they stand two
/// files apart on their seventh rank, an enemy piece between them on the last rank), exactly one
/// of them pinned so that its capture is illegal. Enumerated: colour x target file x target kind
/// x mover king square x pinning piece (Q, R, B) x its square, enemy king in a far corner; kept
/// when the model says that exactly one of the two capture-promotions is legal.
pub fn convergent_promotions() -> Vec<Pos> {
    use rayon::prelude::*;
    let jobs: Vec<(Side, i8)> = [Side::White, Side::Black].iter().flat_map(|s| (1..7i8).map(move |f| (*s, f))).collect();
    let res: Vec<Vec<Pos>> = jobs
        .par_iter()
        .map(|(mover, f)| {
            let opp = mover.other();
            let (r7, r8) = if *mover == Side::White { (6i8, 7i8) } else { (1i8, 0i8) };
            let a = mk_sq(f - 1, r7).unwrap();
            let b = mk_sq(f + 1, r7).unwrap();
            let t = mk_sq(*f, r8).unwrap();
            let mut out = Vec::new();
            for tk in [Kind::Knight, Kind::Bishop, Kind::Rook, Kind::Queen] {
                for ks in 0..64u8 {
                    if [a, b, t].contains(&ks) {
                        continue;
                    }
                    for ok in [0u8, 7, 56, 63] {
                        if [a, b, t, ks].contains(&ok) {
                            continue;
                        }
                        for xs in 0..64u8 {
                            if [a, b, t, ks, ok].contains(&xs) {
                                continue;
                            }
                            for xk in [Kind::Queen, Kind::Rook, Kind::Bishop] {
                                let mut p = Pos::empty();
                                p.stm = *mover;
                                p.sq[a as usize] = Some((Kind::Pawn, *mover));
                                p.sq[b as usize] = Some((Kind::Pawn, *mover));
                                p.sq[t as usize] = Some((tk, opp));
                                p.sq[ks as usize] = Some((Kind::King, *mover));
                                p.sq[ok as usize] = Some((Kind::King, opp));
                                p.sq[xs as usize] = Some((xk, opp));
                                // cheap pre-filter: the pinning piece must share a line with the king
                                let (df, dr) = ((file_of(xs) - file_of(ks)).abs(), (rank_of(xs) - rank_of(ks)).abs());
                                if !(df == 0 || dr == 0 || df == dr) {
                                    continue;
                                }
                                if !p.is_consistent() {
                                    continue;
                                }
                                let legal = p.legal_moves();
                                let ca = legal.iter().any(|m| m.from == a && m.to == t);
                                let cb = legal.iter().any(|m| m.from == b && m.to == t);
                                if ca != cb {
                                    out.push(p);
                                }
                            }
                        }
                    }
                }
            }
            out
        })
        .collect();
    res.into_iter().flatten().collect()
}

/// "Double en passant": two pawns of the side to move can both capture the pawn that has just
/// made a double step, and exactly one of the two captures uncovers a check from a rook or queen
/// standing behind the capturing pawn on its file (the enemy king ahead on that file); the mover
/// also has a queen, so that the position has more than 20 legal moves of several ranks (checks,
/// captures, quiet moves). Enumerated over colour, file, discovering side, the squares of the
/// line piece / enemy king on the file, the mover's king (a few squares) and queen (every square).
pub fn double_en_passant(full: bool) -> Vec<Pos> {
    use rayon::prelude::*;
    let jobs: Vec<(Side, i8, i8)> = [Side::White, Side::Black].iter().flat_map(|s| (1..7i8).flat_map(move |f| [-1i8, 1].into_iter().map(move |d| (*s, f, d)))).collect();
    let res: Vec<Vec<Pos>> = jobs
        .par_iter()
        .map(|(mover, f, disc)| {
            let opp = mover.other();
            // mover's pawns stand on its fifth rank beside the pushed pawn
            let (r5, r6, r7, back, far) = if *mover == Side::White { (4i8, 5i8, 6i8, 0i8, 7i8) } else { (3i8, 2i8, 1i8, 7i8, 0i8) };
            let _ = r7;
            let pushed = mk_sq(*f, r5).unwrap();
            let ep = mk_sq(*f, r6).unwrap();
            let pa = mk_sq(f - 1, r5).unwrap();
            let pb = mk_sq(f + 1, r5).unwrap();
            let dfile = f + disc;
            let mut out = Vec::new();
            for lk in [Kind::Rook, Kind::Queen] {
                let line_sq = mk_sq(dfile, back).unwrap();
                for ek_r in [far, far - (far - back).signum()] {
                    let ek = mk_sq(dfile, ek_r).unwrap();
                    for ks in [mk_sq(7 - dfile.min(6), back).unwrap(), mk_sq((dfile + 3) % 8, back).unwrap()] {
                        for qs in 0..64u8 {
                            if !full && qs % 2 == 1 {
                                continue;
                            }
                            let mut p = Pos::empty();
                            p.stm = *mover;
                            p.ep = Some(ep);
                            for (sq, pc) in [(pushed, (Kind::Pawn, opp)), (pa, (Kind::Pawn, *mover)), (pb, (Kind::Pawn, *mover)), (line_sq, (lk, *mover)), (ek, (Kind::King, opp)), (ks, (Kind::King, *mover)), (qs, (Kind::Queen, *mover))] {
                                if p.sq[sq as usize].is_some() {
                                    p.stm = opp; // marks a clash: rejected below
                                }
                                p.sq[sq as usize] = Some(pc);
                            }
                            if p.stm != *mover || !p.is_consistent() {
                                continue;
                            }
                            let legal = p.legal_moves();
                            let eps: Vec<&Move> = legal.iter().filter(|m| m.kind == MoveKind::EnPassant).collect();
                            if eps.len() != 2 || legal.len() <= 20 {
                                continue;
                            }
                            let checks = eps.iter().filter(|m| p.make(m).in_check(opp)).count();
                            if checks == 1 {
                                out.push(p);
                            }
                        }
                    }
                }
            }
            out
        })
        .collect();
    res.into_iter().flatten().collect()
}

/// "Crowded armies": one side has all sixteen men, one or two of its pawns promoted to queens
/// (2 or 3 queens) and its king advanced to the third / fourth rank; the other side's king stands
/// two squares away (every such square), with or without its own full army at home; the side
/// with the roaming bare / home army king is to move.  The squares between the kings are guarded
/// by the crowded side's king alone in many members (attack-map completeness with > 16 attack
/// sources). Both colours.
pub fn crowded_armies() -> Vec<Pos> {
    let mut out = Vec::new();
    let home = Pos::startpos();
    for crowded in [Side::White, Side::Black] {
        let flip = |s: u8| if crowded == Side::White { s } else { 63 - s };
        for wk in [20u8, 19, 28] {
            // e3, d3, e4 (from the crowded side's point of view)
            for with_army in [false, true] {
                for nq in [2usize, 3] {
                    for qs in 16..48u8 {
                        for (df, dr) in [(-2i8, -2i8), (-2, -1), (-2, 0), (-2, 1), (-2, 2), (-1, 2), (0, 2), (1, 2), (2, 2), (2, 1), (2, 0), (2, -1), (2, -2), (1, -2), (0, -2), (-1, -2)] {
                            let bk = match mk_sq(file_of(wk) + df, rank_of(wk) + dr) {
                                Some(b) => b,
                                None => continue,
                            };
                            let mut p = Pos::empty();
                            p.stm = crowded.other();
                            // crowded side's army: home squares of White mapped through `flip`
                            for sq in 0..16u8 {
                                if let Some((k, _)) = home.sq[sq as usize] {
                                    p.sq[flip(sq) as usize] = Some((k, crowded));
                                }
                            }
                            // king leaves e1 for wk; the e-pawn (and for three queens the d-pawn) has queened
                            p.sq[flip(4) as usize] = None;
                            p.sq[flip(12) as usize] = None;
                            if nq == 3 {
                                p.sq[flip(11) as usize] = None;
                            }
                            if with_army {
                                for sq in 48..64u8 {
                                    if let Some((k, _)) = home.sq[sq as usize] {
                                        if k != Kind::King {
                                            p.sq[flip(sq) as usize] = Some((k, crowded.other()));
                                        }
                                    }
                                }
                            }
                            let mut clash = false;
                            let mut put = |p: &mut Pos, sq: u8, pc: (Kind, Side)| {
                                if p.sq[flip(sq) as usize].is_some() {
                                    clash = true;
                                }
                                p.sq[flip(sq) as usize] = Some(pc);
                            };
                            put(&mut p, wk, (Kind::King, crowded));
                            put(&mut p, qs, (Kind::Queen, crowded));
                            if nq == 3 {
                                put(&mut p, (qs + 9) % 32 + 16, (Kind::Queen, crowded));
                            }
                            put(&mut p, bk, (Kind::King, crowded.other()));
                            if clash || !p.is_consistent() {
                                continue;
                            }
                            out.push(p);
                        }
                    }
                }
            }
        }
    }
    out
}

/// Positions with far more legal moves than any game position usually has (the 218-move
/// construction with nine queens, and its colour-swapped rotated image): like pieces reaching the
/// same squares from many files and ranks, move lists longer than 128 entries.
pub fn many_queens() -> Vec<Pos> {
    let p = Pos::from_fen("R6R/3Q4/1Q4Q1/4Q3/2Q4Q/Q4Q2/pp1Q4/kBNN1KB1 w - - 0 1").unwrap();
    let m = p.mirrored_rot180();
    vec![p, m]
}
