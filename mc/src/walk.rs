//! Lock-step explorer: drives the real Board / MoveGenerator along every path of a bounded
//! tree beside the reference model and evaluates the enabled oracles at every state and
//! transition.  One nested apply/undo DFS on a single board per work item.

use crate::bind::*;
use crate::refchess::san::san_body;
use crate::refchess::*;
use crate::report::{Report, Sink, Violation};
use chess::board::Board;
use chess::chess_move::castle::CastleChessMove;
use chess::chess_move::chess_move::ChessMove;
use chess::chess_move::chess_move_effect::ChessMoveEffect;
use chess::chess_move::en_passant::EnPassantChessMove;
use chess::chess_move::pawn_promotion::PawnPromotionChessMove;
use chess::chess_move::standard::StandardChessMove;
use chess::chess_move::capture::Capture;
use chess::evaluate::{self, GameEnding};
use chess::move_generator::MoveGenerator;
use rustc_hash::FxHashMap;
use serde_json::json;
use std::collections::BTreeMap;
use std::sync::atomic::{AtomicUsize, Ordering};
use std::sync::Mutex;

pub const F01: u32 = 1 << 1;
pub const F02: u32 = 1 << 2;
pub const F03: u32 = 1 << 3;
pub const F04: u32 = 1 << 4;
pub const F05: u32 = 1 << 5;
pub const F06: u32 = 1 << 6;
pub const F12: u32 = 1 << 12;
pub const F13: u32 = 1 << 13;
pub const F16: u32 = 1 << 16;
pub const F18: u32 = 1 << 18;
pub const F19: u32 = 1 << 19;

#[derive(Clone)]
pub struct WalkCfg {
    /// property that owns this run: only its violations are reported
    pub owner: String,
    pub flags: u32,
    pub dedup: bool,
    /// replace a long-lived generator when its move cache exceeds this many entries (RSS bound)
    pub gen_renew: usize,
    pub threads: usize,
    /// wall-clock cap in seconds (0 = none); hitting it makes the run non-exhaustive
    pub wall_cap_s: u64,
}

#[derive(Clone)]
pub struct Item {
    pub seed_name: String,
    pub seed_fen: String,
    pub root: Pos,
    pub prefix: Vec<Move>,
    pub remaining: u32,
}

#[derive(Default, Clone)]
pub struct Counters {
    pub visits: u64,
    pub states: u64,
    pub transitions: u64,
    pub traces: u64,
    pub merged: u64,
    pub reexpanded: u64,
    pub c: BTreeMap<&'static str, u64>,
}

impl Counters {
    fn add(&mut self, k: &'static str, n: u64) {
        *self.c.entry(k).or_insert(0) += n;
    }
    fn absorb(&mut self, o: &Counters) {
        self.visits += o.visits;
        self.states += o.states;
        self.transitions += o.transitions;
        self.traces += o.traces;
        self.merged += o.merged;
        self.reexpanded += o.reexpanded;
        for (k, v) in &o.c {
            *self.c.entry(k).or_insert(0) += v;
        }
    }
}

struct Local {
    g: MoveGenerator,
    ga: MoveGenerator,
    n: Counters,
}

pub struct Walker<'a> {
    pub cfg: WalkCfg,
    pub sink: &'a Sink,
    visited: Vec<Mutex<FxHashMap<CKey, (u8, u64)>>>,
    /// (key, colour) -> first canonical position seen with it (C02 collision census)
    keyseen: Vec<Mutex<FxHashMap<u64, CKey>>>,
    pub collisions: Mutex<Vec<(Pos, Pos)>>,
    deadline: Option<std::time::Instant>,
    pub timed_out: std::sync::atomic::AtomicBool,
}

const SHARDS: usize = 256;

fn shard_of(k: &CKey) -> usize {
    let h = k[0] ^ k[1].rotate_left(13) ^ k[2].rotate_left(29) ^ k[3].rotate_left(43) ^ k[4].rotate_left(7);
    ((h.wrapping_mul(0x9E3779B97F4A7C15)) >> 56) as usize % SHARDS
}

pub fn impl_move_from_model(m: &Move, stm: Side) -> ChessMove {
    let cap = m.captured.map(|k| Capture(piece_of(k)));
    match m.kind {
        MoveKind::Normal | MoveKind::DoubleStep => ChessMove::Standard(StandardChessMove::new(bb(m.from), bb(m.to), cap)),
        MoveKind::Promotion(p) => ChessMove::PawnPromotion(PawnPromotionChessMove::new(bb(m.from), bb(m.to), cap, piece_of(p))),
        MoveKind::EnPassant => ChessMove::EnPassant(EnPassantChessMove::new(bb(m.from), bb(m.to))),
        MoveKind::CastleK => ChessMove::Castle(CastleChessMove::castle_kingside(color_of(stm))),
        MoveKind::CastleQ => ChessMove::Castle(CastleChessMove::castle_queenside(color_of(stm))),
    }
}

fn path_uci(path: &[Move]) -> Vec<String> {
    path.iter().map(uci).collect()
}

/// C12: representation invariants of one observable state.  Returns (class, detail) list.
pub fn invariants(s: &Snap) -> Vec<(&'static str, String)> {
    let mut v = Vec::new();
    // bitboards pairwise disjoint
    let mut seen = 0u64;
    for side in 0..2 {
        for k in 0..6 {
            let b = s.locate[side][k];
            if b & seen != 0 {
                v.push(("two-pieces-on-one-square", format!("bitboard side {} kind {} overlaps another: {:#x}", side, k, b & seen)));
            }
            seen |= b;
        }
    }
    for side in 0..2 {
        let u = s.locate[side].iter().fold(0u64, |a, b| a | b);
        if u != s.occ[side] {
            v.push(("side-occupancy-summary", format!("side {} union {:#x} != occupied {:#x}", side, u, s.occ[side])));
        }
    }
    if s.occ[0] | s.occ[1] != s.occ_all {
        v.push(("board-occupancy-summary", format!("{:#x} | {:#x} != {:#x}", s.occ[0], s.occ[1], s.occ_all)));
    }
    for sq in 0..64usize {
        let mut want = 0u8;
        for side in 0..2 {
            for k in 0..6 {
                if s.locate[side][k] & (1u64 << sq) != 0 {
                    want = 1 + k as u8 + 6 * side as u8;
                }
            }
        }
        if s.sq[sq] != want {
            v.push(("get-disagrees-with-bitboards", format!("sq {} get={} bitboards={}", sq_name(sq as u8), s.sq[sq], want)));
        }
    }
    for side in 0..2 {
        let kings = s.locate[side][Kind::King as usize].count_ones();
        if kings != 1 {
            v.push(("king-count", format!("side {} has {} kings", side, kings)));
        }
        let pawns = s.locate[side][Kind::Pawn as usize];
        if pawns & 0xFF000000000000FFu64 != 0 {
            v.push(("pawn-on-back-rank", format!("side {} pawns {:#x}", side, pawns)));
        }
    }
    let has = |sq: Sq, k: Kind, side: Side| s.sq[sq as usize] == code(k, side);
    for (bit, ks, rs, side, nm) in [(WK, E1, H1, Side::White, "K"), (WQ, E1, A1, Side::White, "Q"), (BK, E8, H8, Side::Black, "k"), (BQ, E8, A8, Side::Black, "q")] {
        if s.rights & bit != 0 && !(has(ks, Kind::King, side) && has(rs, Kind::Rook, side)) {
            v.push(("right-without-king-or-rook-at-home", format!("right {} held", nm)));
        }
    }
    if s.rights & !0b1111 != 0 {
        v.push(("rights-out-of-range", format!("{:#b}", s.rights)));
    }
    if s.ep != 0 {
        if s.ep.count_ones() != 1 {
            v.push(("ep-target-not-a-square", format!("{:#x}", s.ep)));
        } else {
            let e = s.ep.trailing_zeros() as u8;
            let r = rank_of(e);
            let f = file_of(e);
            let ok = if r == 2 {
                has(mk_sq(f, 3).unwrap(), Kind::Pawn, Side::White) && s.sq[e as usize] == 0 && s.sq[mk_sq(f, 1).unwrap() as usize] == 0
            } else if r == 5 {
                has(mk_sq(f, 4).unwrap(), Kind::Pawn, Side::Black) && s.sq[e as usize] == 0 && s.sq[mk_sq(f, 6).unwrap() as usize] == 0
            } else {
                false
            };
            if !ok {
                v.push(("ep-target-inconsistent", format!("ep {}", sq_name(e))));
            }
        }
    }
    v
}

fn effect_of(succ: &Pos) -> ChessMoveEffect {
    if succ.in_check(succ.stm) {
        if succ.legal_moves().is_empty() {
            ChessMoveEffect::Checkmate
        } else {
            ChessMoveEffect::Check
        }
    } else {
        ChessMoveEffect::None
    }
}

fn sorted(mut v: Vec<MoveDesc>) -> Vec<MoveDesc> {
    v.sort();
    v
}

fn class_name(d: &MoveDesc) -> &'static str {
    ["standard", "promotion", "en-passant", "castle"][d.class as usize]
}

/// compare an implementation move list with the model's; returns (class, detail) mismatches
pub fn diff_move_lists(got: &[MoveDesc], want: &[MoveDesc]) -> Vec<(String, String)> {
    let mut out = Vec::new();
    let g = sorted(got.to_vec());
    let w = sorted(want.to_vec());
    for i in 1..g.len() {
        if g[i] == g[i - 1] {
            out.push((format!("duplicate-{}", class_name(&g[i])), desc_str(&g[i])));
        }
    }
    for d in &w {
        if !g.contains(d) {
            // same from/to present with different attributes?
            let near = g.iter().find(|x| x.from == d.from && x.to == d.to && x.promo == d.promo);
            match near {
                Some(n) => out.push((format!("wrong-attributes-{}", class_name(d)), format!("model {} impl {}", desc_str(d), desc_str(n)))),
                None => out.push((format!("missing-{}", class_name(d)), desc_str(d))),
            }
        }
    }
    for d in &g {
        if !w.contains(d) && !w.iter().any(|x| x.from == d.from && x.to == d.to && x.promo == d.promo) {
            out.push((format!("extra-{}", class_name(d)), desc_str(d)));
        }
    }
    out
}

impl<'a> Walker<'a> {
    pub fn new(cfg: WalkCfg, sink: &'a Sink) -> Walker<'a> {
        let deadline = if cfg.wall_cap_s > 0 { Some(std::time::Instant::now() + std::time::Duration::from_secs(cfg.wall_cap_s)) } else { None };
        Walker {
            cfg,
            sink,
            visited: (0..SHARDS).map(|_| Mutex::new(FxHashMap::default())).collect(),
            keyseen: (0..SHARDS).map(|_| Mutex::new(FxHashMap::default())).collect(),
            collisions: Mutex::new(Vec::new()),
            deadline,
            timed_out: std::sync::atomic::AtomicBool::new(false),
        }
    }

    fn viol(&self, prop: &str, class: &str, item: &Item, path: &[Move], detail: String) {
        if prop != self.cfg.owner {
            return;
        }
        let mut full: Vec<Move> = item.prefix.clone();
        full.extend_from_slice(path);
        self.sink.push(Violation {
            prop: prop.to_string(),
            class: class.to_string(),
            seed: item.seed_fen.clone(),
            path: path_uci(&full),
            detail,
            extra: json!({"seed_name": item.seed_name}),
        });
    }

    pub fn visited_keys(&self) -> Vec<CKey> {
        let mut v = Vec::new();
        for m in self.visited.iter() {
            v.extend(m.lock().unwrap().keys().copied());
        }
        v
    }

    pub fn distinct_states(&self) -> u64 {
        self.visited.iter().map(|m| m.lock().unwrap().len() as u64).sum()
    }

    /// Run all items on `threads` workers.  Returns merged counters.
    pub fn run(&self, items: &[Item]) -> Counters {
        let next = AtomicUsize::new(0);
        let total = Mutex::new(Counters::default());
        std::thread::scope(|sc| {
            for _ in 0..self.cfg.threads.max(1) {
                sc.spawn(|| {
                    let mut l = Local { g: MoveGenerator::new(), ga: MoveGenerator::new(), n: Counters::default() };
                    loop {
                        let i = next.fetch_add(1, Ordering::Relaxed);
                        if i >= items.len() {
                            break;
                        }
                        if let Some(d) = self.deadline {
                            if std::time::Instant::now() > d {
                                self.timed_out.store(true, Ordering::Relaxed);
                                break;
                            }
                        }
                        self.run_item(&mut l, &items[i]);
                    }
                    total.lock().unwrap().absorb(&l.n);
                });
            }
        });
        let t = total.into_inner().unwrap();
        t
    }

    fn run_item(&self, l: &mut Local, item: &Item) {
        let mut board = build_board(&item.root);
        let mut pos = item.root.clone();
        // replay the prefix on the real board with the generator's own move objects
        let mut applied: Vec<ChessMove> = Vec::new();
        // "long-replay" items: the game is replayed move by move with moves built through the
        // public constructors and NOTHING else touches the board (no generation, hence no
        // apply / undo of other moves on it); after every ply the board is compared with the model
        // (C03) and its key with the key of the same position set up directly (C05)
        let pure = item.seed_name.starts_with("long-replay");
        for (k, m) in item.prefix.iter().enumerate() {
            let turn = color_of(pos.stm);
            let want = describe_model(m);
            if pure {
                let im = impl_move_from_model(m, pos.stm);
                match guarded(|| im.apply(&mut board)) {
                    Ok(Ok(())) => {}
                    other => {
                        self.viol("C03", "apply-failed(long-replay)", item, &[], format!("ply {} ({}): {:?}", k + 1, uci(m), other.map(|r| r.map_err(|e| e.to_string()))));
                        return;
                    }
                }
                board.toggle_turn();
                applied.push(im);
                pos = pos.make(m);
                l.n.add("long_replay_plies_compared", 1);
                let s = snapshot(&board);
                let d = s.diff_pos(&pos);
                if !d.is_empty() {
                    self.viol("C03", "position-differs-from-the-rules-successor(long-replay)", item, &[], format!("after ply {} ({}) of a replayed game: {}", k + 1, uci(m), d));
                    return;
                }
                if self.cfg.flags & F05 != 0 {
                    let direct = build_board(&pos).current_position_hash();
                    if s.key != direct {
                        self.viol("C05", "key-differs-from-direct-set-up(long-replay)", item, &[], format!("after ply {} ({}) of a replayed game: key {:#018x}, the same position set up directly {:#018x}", k + 1, uci(m), s.key, direct));
                        return;
                    }
                }
                continue;
            }
            let found = guarded(|| l.g.generate_moves(&mut board, turn)).ok().and_then(|ms| ms.iter().find(|x| describe_impl(x) == want).cloned());
            // fall back to a move built through the public constructors (the mismatch itself is
            // reported by the item that visits the parent node)
            let im = found.unwrap_or_else(|| impl_move_from_model(m, pos.stm));
            match guarded(|| im.apply(&mut board)) {
                Ok(Ok(())) => {}
                _ => return, // reported where the parent is visited
            }
            board.toggle_turn();
            applied.push(im);
            pos = pos.make(m);
        }
        // long prefixes (pre-rolled games, C04): remember every observable before each prefix ply
        // so that the whole game can be unwound afterwards
        let deep = self.cfg.flags & (F04 | F05 | F12 | F16) != 0 && item.prefix.len() > 16;
        if item.prefix.len() > 64 {
            // what is examined here depends on the HISTORY the board carries, not on the position: a
            // generator that has already listed these positions (for a game of another length)
            // would answer from its cache without touching the board
            l.g = MoveGenerator::new();
            l.ga = MoveGenerator::new();
            l.n.add("generator_renewals", 2);
        }
        let mut path: Vec<Move> = Vec::new();
        let r = self.node(l, &mut board, &pos, item.remaining, &mut path, item);
        if deep && r.is_ok() {
            // replay bookkeeping: rebuild the snapshots by walking the prefix again on a second board
            let mut b2 = build_board(&item.root);
            let mut snaps = Vec::with_capacity(item.prefix.len());
            for im in applied.iter() {
                snaps.push(snapshot(&b2));
                if !matches!(guarded(|| im.apply(&mut b2)), Ok(Ok(()))) {
                    return;
                }
                b2.toggle_turn();
            }
            for (k, im) in applied.iter().enumerate().rev() {
                board.toggle_turn();
                match guarded(|| im.undo(&mut board)) {
                    Ok(Ok(())) => {}
                    other => {
                        let d = format!("undoing ply {} of a {}-ply game: {:?}", k + 1, applied.len(), other.map(|r| r.map_err(|e| e.to_string())));
                        for (fl, pr) in [(F04, "C04"), (F05, "C05"), (F12, "C12"), (F16, "C16")] {
                            if self.cfg.flags & fl != 0 {
                                self.viol(pr, "undo-failed(long-game)", item, &[], d.clone());
                            }
                        }
                        return;
                    }
                }
                l.n.add("long_game_undo_comparisons", 1);
                let now = snapshot(&board);
                if now != snaps[k] {
                    let d = format!("after undoing ply {} of a {}-ply game (and a depth-{} tree at its end): {}", k + 1, applied.len(), item.remaining, snaps[k].diff(&now));
                    if self.cfg.flags & F04 != 0 {
                        self.viol("C04", "undo-does-not-restore(long-game)", item, &[], d.clone());
                    }
                    // C05: so is the key
                    if self.cfg.flags & F05 != 0 && now.key != snaps[k].key {
                        self.viol("C05", "key-differs-after-unwinding(long-game)", item, &[], d.clone());
                    }
                    // C12: the rights held while unwinding a game are the ones held on the way in
                    if self.cfg.flags & F12 != 0 && now.rights != snaps[k].rights {
                        self.viol("C12", "rights-differ-after-unwinding(long-game)", item, &[], d.clone());
                    }
                    // C16: so are the two clocks
                    if self.cfg.flags & F16 != 0 && (now.half != snaps[k].half || now.full != snaps[k].full) {
                        self.viol("C16", "clocks-differ-after-unwinding(long-game)", item, &[], d.clone());
                    }
                    return;
                }
            }
        }
    }

    /// C04 runs other properties' queries only to see that they leave the board alone; when one
    /// of them panics (reported by its own property's check) the board is put back from a copy
    /// taken before the queries and the walk continues. Bounded: a new generator costs ~100 ms.
    fn recover_after_query_panic(&self, l: &mut Local, board: &mut Board, backup: &Option<Board>) -> bool {
        let used = l.n.c.get("query_panics_recovered").copied().unwrap_or(0);
        match backup {
            Some(b) if used < 40 => {
                *board = b.clone();
                l.ga = MoveGenerator::new();
                l.n.add("query_panics_recovered", 1);
                true
            }
            _ => false,
        }
    }

    fn renew(&self, l: &mut Local) {
        if l.g.cache_entry_count() > self.cfg.gen_renew {
            l.g = MoveGenerator::new();
            l.n.add("generator_renewals", 1);
        }
        if l.ga.cache_entry_count() > self.cfg.gen_renew {
            l.ga = MoveGenerator::new();
            l.n.add("generator_renewals", 1);
        }
    }

    #[allow(clippy::too_many_arguments)]
    fn node(&self, l: &mut Local, board: &mut Board, pos: &Pos, remaining: u32, path: &mut Vec<Move>, item: &Item) -> Result<(), ()> {
        let f = self.cfg.flags;
        let on = |x: u32| f & x != 0;
        let ck = canon(pos);
        let implkey = board.current_position_hash();
        l.n.visits += 1;
        // trees at the end of pre-rolled long games are about the HISTORY the board carries: they are
        // never merged with (or into) states reached by another route
        if self.cfg.dedup && item.prefix.len() <= 64 && !item.seed_name.contains("@clock") {
            let sh = &self.visited[shard_of(&ck)];
            let prior = {
                let mut g = sh.lock().unwrap();
                match g.get_mut(&ck) {
                    Some(e) => {
                        let old = *e;
                        if (e.0 as u32) < remaining {
                            e.0 = remaining as u8;
                        }
                        Some(old)
                    }
                    None => {
                        g.insert(ck, (remaining as u8, implkey));
                        None
                    }
                }
            };
            match prior {
                Some((d0, k0)) => {
                    if on(F05) && k0 != implkey {
                        self.viol("C05", "key-differs-between-paths", item, path, format!("key on first arrival {:#018x}, on this path {:#018x} (same placement, rights and ep target: {})", k0, implkey, pos.to_fen()));
                    }
                    if d0 as u32 >= remaining {
                        l.n.merged += 1;
                        l.n.traces += 1;
                        return Ok(());
                    }
                    l.n.reexpanded += 1;
                }
                None => l.n.states += 1,
            }
        } else {
            l.n.states += 1;
        }
        if on(F02) {
            // census of (key, side to move) -> canonical position: two different positions under
            // one key are candidates for being served each other's answer
            // the move cache is keyed (key, queried colour) and the walk queries the side to move
            let placement = ck;
            let ckey = implkey ^ ((pos.stm as u64) << 63 >> 63).wrapping_mul(0x9E3779B97F4A7C15);
            let mut ks = self.keyseen[(ckey >> 56) as usize % SHARDS].lock().unwrap();
            match ks.get(&ckey) {
                Some(first) if *first != placement => {
                    l.n.add("key_collisions_seen", 1);
                    let mut c = self.collisions.lock().unwrap();
                    if c.len() < 200 {
                        c.push((uncanon(first), pos.clone()));
                    }
                }
                Some(_) => {}
                None => {
                    ks.insert(ckey, placement);
                }
            }
        }

        let turn = color_of(pos.stm);
        if board.turn() != turn {
            eprintln!("MACHINERY-ERROR: harness lost track of the turn");
            std::process::exit(2);
        }
        let (legal, rejected) = pos.legal_and_rejected();
        l.n.add("pin_filter_rejections", rejected as u64);
        let mdesc: Vec<MoveDesc> = legal.iter().map(describe_model).collect();
        let snap0 = snapshot(board);

        // ---------------- move generation (C01 / C02) ----------------
        let hits0 = l.g.cache_hit_count();
        // C03 judges every move that is legal by the RULES: keep a copy of the board so that the
        // transitions can still be made when generation itself panics
        let backup = if on(F03) { Some(board.clone()) } else { None };
        let imoves = match guarded(|| l.g.generate_moves(board, turn)) {
            Ok(m) => m,
            Err(p) => {
                for (fl, pr) in [(F01, "C01"), (F02, "C02"), (F04, "C04"), (F12, "C12")] {
                    if on(fl) {
                        self.viol(pr, "panic-in-generate_moves", item, path, p.clone());
                    }
                }
                match backup {
                    Some(b) => {
                        *board = b;
                        l.g = MoveGenerator::new();
                        l.n.add("generation_panics_recovered_for_C03", 1);
                        Default::default()
                    }
                    None => return Err(()),
                }
            }
        };
        let hit = l.g.cache_hit_count() != hits0;
        if hit {
            l.n.add("long_lived_generator_cache_hits", 1);
        }
        let idesc: Vec<MoveDesc> = imoves.iter().map(describe_impl).collect();
        if on(F04) || on(F12) {
            let s = snapshot(board);
            if s != snap0 {
                self.viol("C04", "query-mutates-board:generate_moves", item, path, snap0.diff(&s));
            }
        }
        if (on(F01) || on(F02)) && sorted(idesc.clone()) != sorted(mdesc.clone()) && l.n.c.get("brand_new_generator_arbitrations").copied().unwrap_or(0) >= 150 {
            // the arbiter costs ~100 ms; after 150 arbitrations per worker the verdict is settled
            l.n.add("mismatches_not_arbitrated", 1);
        } else if (on(F01) || on(F02)) && sorted(idesc.clone()) != sorted(mdesc.clone()) {
            // arbiter: an actually brand-new generator on a clone of the board
            let mut bc = board.clone();
            l.n.add("brand_new_generator_arbitrations", 1);
            match guarded(|| MoveGenerator::new().generate_moves(&mut bc, turn)) {
                Ok(fm) => {
                    let fdesc: Vec<MoveDesc> = fm.iter().map(describe_impl).collect();
                    if on(F01) {
                        for (cls, det) in diff_move_lists(&fdesc, &mdesc) {
                            self.viol("C01", &cls, item, path, format!("{} (brand-new generator; position {})", det, pos.to_fen()));
                        }
                    }
                    if on(F02) && sorted(fdesc.clone()) != sorted(idesc.clone()) {
                        let d = diff_move_lists(&idesc, &fdesc);
                        self.viol(
                            "C02",
                            "moves-differ-from-brand-new-generator",
                            item,
                            path,
                            format!("long-lived generator (cache hit reported: {}) vs brand-new generator: {:?}; position {} key {:#018x}", hit, d, pos.to_fen(), implkey),
                        );
                    }
                }
                Err(p) => {
                    if on(F01) {
                        self.viol("C01", "panic-in-generate_moves", item, path, format!("brand-new generator: {}", p));
                    }
                }
            }
        }

        // the same placement with the other colour to move is a consistent set-up position too
        // (when nobody is in check and no ep target is pending); the engine itself asks generators
        // about the side not to move (mate detection after a trial move), so the caches hold
        // entries of both colours under one key
        // (members of the 3-men family come with both sides to move already)
        if (on(F01) || on(F02)) && pos.ep.is_none() && item.seed_name != "three-men" && !pos.in_check(pos.stm) {
            let mut flipped = pos.clone();
            flipped.stm = pos.stm.other();
            if flipped.is_consistent() {
                let fl = flipped.legal_moves();
                let fd: Vec<MoveDesc> = fl.iter().map(describe_model).collect();
                let oc = color_of(flipped.stm);
                match guarded(|| l.g.generate_moves(board, oc)) {
                    Ok(om) => {
                        l.n.add("other_colour_queries", 1);
                        let od: Vec<MoveDesc> = om.iter().map(describe_impl).collect();
                        if sorted(od.clone()) != sorted(fd.clone()) {
                            let mut bc = board.clone();
                            l.n.add("brand_new_generator_arbitrations", 1);
                            let fresh = guarded(|| MoveGenerator::new().generate_moves(&mut bc, oc)).map(|v| v.iter().map(describe_impl).collect::<Vec<_>>());
                            match fresh {
                                Ok(fdesc) => {
                                    if on(F01) {
                                        for (cls, det) in diff_move_lists(&fdesc, &fd) {
                                            self.viol("C01", &cls, item, path, format!("{} (brand-new generator asked for the side NOT to move; position {})", det, flipped.to_fen()));
                                        }
                                    }
                                    if on(F02) && sorted(fdesc.clone()) != sorted(od.clone()) {
                                        self.viol("C02", "moves-differ-from-brand-new-generator", item, path, format!("long-lived generator asked for {:?} (the side not to move) after being asked for the side to move: {:?}; position {}", flipped.stm, diff_move_lists(&od, &fdesc), flipped.to_fen()));
                                    }
                                }
                                Err(p) => {
                                    if on(F01) {
                                        self.viol("C01", "panic-in-generate_moves", item, path, format!("brand-new generator, other colour: {}", p));
                                    }
                                }
                            }
                        }
                        if on(F04) || on(F12) {
                            let s = snapshot(board);
                            if s != snap0 {
                                self.viol("C04", "query-mutates-board:generate_moves", item, path, snap0.diff(&s));
                            }
                        }
                    }
                    Err(p) => {
                        for (fl, pr) in [(F01, "C01"), (F02, "C02")] {
                            if on(fl) {
                                self.viol(pr, "panic-in-generate_moves", item, path, format!("other colour: {}", p));
                            }
                        }
                        return Err(());
                    }
                }
            }
        }

        // ---------------- state oracles ----------------
        if on(F12) {
            for (cls, det) in invariants(&snap0) {
                self.viol("C12", cls, item, path, format!("{} in {}", det, pos.to_fen()));
            }
            // the states the ENGINE's own listed moves lead to (the walk itself follows the model's
            // moves): each listed move is applied, the invariants evaluated, and the move undone
            for m in imoves.iter() {
                match guarded(|| m.apply(board)) {
                    Ok(Ok(())) => {
                        l.n.add("engine_listed_moves_applied_for_invariants", 1);
                        let s1 = snapshot(board);
                        for (cls, det) in invariants(&s1) {
                            self.viol("C12", cls, item, path, format!("after the engine's own listed move {} from {}: {}", desc_str(&describe_impl(m)), pos.to_fen(), det));
                        }
                        if !matches!(guarded(|| m.undo(board)), Ok(Ok(()))) {
                            return Err(());
                        }
                    }
                    _ => return Err(()), // reported by C03 / C04
                }
            }
        }
        if on(F05) {
            let scratch = build_board(&Pos { halfmove: 0, ply: 0, ..pos.clone() });
            let k = scratch.current_position_hash();
            l.n.add("scratch_builds_compared", 1);
            if k != implkey {
                self.viol("C05", "key-differs-from-direct-set-up", item, path, format!("key reached by play {:#018x}, key of the same position set up directly {:#018x}; position {}", implkey, k, pos.to_fen()));
            }
        }
        if on(F02) {
            for side in [Side::White, Side::Black] {
                let want = pos.attack_map(side);
                match guarded(|| l.g.get_attack_targets(board, color_of(side))) {
                    Ok(got) => {
                        l.n.add("attack_queries", 1);
                        if got.0 != want && l.n.c.get("brand_new_generator_arbitrations").copied().unwrap_or(0) >= 150 {
                            l.n.add("mismatches_not_arbitrated", 1);
                        } else if got.0 != want {
                            let fresh = guarded(|| MoveGenerator::new().get_attack_targets(board, color_of(side))).map(|b| b.0);
                            l.n.add("brand_new_generator_arbitrations", 1);
                            if fresh != Ok(got.0) {
                                self.viol("C02", "attacks-differ-from-brand-new-generator", item, path, format!("side {:?}: long-lived {:#018x}, brand-new {:?}, position {} key {:#018x}", side, got.0, fresh, pos.to_fen(), implkey));
                            } else {
                                l.n.add("attack_mirror_disagreements", 1);
                            }
                        }
                    }
                    Err(p) => self.viol("C02", "panic-in-get_attack_targets", item, path, p),
                }
            }
        }
        // model classification of every legal move's successor (needed by C06 / C13)
        let need_eff = on(F06) || on(F13);
        let succs: Vec<Pos> = legal.iter().map(|m| pos.make(m)).collect();
        let effs: Vec<ChessMoveEffect> = if need_eff { succs.iter().map(effect_of).collect() } else { Vec::new() };

        let qbackup: Option<Board> = if on(F04) && (on(F06) || on(F13)) { Some(board.clone()) } else { None };
        if on(F06) {
            for side in [Side::White, Side::Black] {
                let want = pos.in_check(side);
                match guarded(|| evaluate::player_is_in_check(board, &mut l.ga, color_of(side))) {
                    Ok(got) => {
                        l.n.add("check_verdicts", 1);
                        if want {
                            l.n.add("states_in_check", 1);
                        }
                        if got != want {
                            let budget_left = l.n.c.get("brand_new_generator_arbitrations").copied().unwrap_or(0) < 50;
                            l.n.add("brand_new_generator_arbitrations", 1);
                            let fresh = if budget_left { guarded(|| evaluate::player_is_in_check(board, &mut MoveGenerator::new(), color_of(side))) } else { Err("(not consulted)".to_string()) };
                            self.viol("C06", "in-check-verdict", item, path, format!("side {:?}: engine says {}, rules say {}; brand-new generator says {:?}; position {}", side, got, want, fresh, pos.to_fen()));
                        }
                    }
                    Err(p) => self.viol("C06", "panic-in-player_is_in_check", item, path, p),
                }
            }
            let want = if legal.is_empty() {
                if pos.in_check(pos.stm) {
                    "checkmate"
                } else {
                    "stalemate"
                }
            } else {
                "none"
            };
            match guarded(|| evaluate::game_ending(board, &mut l.ga, turn)) {
                Ok(got) => {
                    let gs = match got {
                        Some(GameEnding::Checkmate) => "checkmate",
                        Some(GameEnding::Stalemate) => "stalemate",
                        Some(GameEnding::Draw) => "draw",
                        None => "none",
                    };
                    match want {
                        "checkmate" => l.n.add("checkmated_states", 1),
                        "stalemate" => l.n.add("stalemated_states", 1),
                        _ => {}
                    }
                    if gs != want {
                        self.viol("C06", "game-ending-verdict", item, path, format!("engine says {}, rules say {}; position {}", gs, want, pos.to_fen()));
                    }
                }
                Err(p) => {
                    self.viol("C06", "panic-in-game_ending", item, path, p);
                    if on(F04) && !self.recover_after_query_panic(l, board, &qbackup) {
                        return Err(());
                    }
                }
            }
            match guarded(|| l.ga.generate_moves_and_lazily_update_chess_move_effects(board, turn)) {
                Ok(am) => {
                    for m in am.iter() {
                        let d = describe_impl(m);
                        if let Some(i) = mdesc.iter().position(|x| *x == d) {
                            l.n.add("move_annotations_checked", 1);
                            match effs[i] {
                                ChessMoveEffect::Check => l.n.add("checking_moves", 1),
                                ChessMoveEffect::Checkmate => l.n.add("mating_moves", 1),
                                _ => {}
                            }
                            if m.effect() != effs[i] {
                                self.viol("C06", "move-annotation", item, path, format!("move {}: engine annotates {:?}, rules say {:?}; position {}", desc_str(&d), m.effect(), effs[i], pos.to_fen()));
                            }
                        }
                    }
                    if am.len() != legal.len() {
                        self.viol("C06", "annotated-list-length", item, path, format!("annotated list has {} moves, rules give {}; position {}", am.len(), legal.len(), pos.to_fen()));
                    }
                }
                Err(p) => {
                    self.viol("C06", "panic-in-annotated-generation", item, path, p);
                    // a C04 run goes on to its own apply / undo comparisons below this node
                    if !(on(F04) && self.recover_after_query_panic(l, board, &qbackup)) {
                        return Err(());
                    }
                }
            }
            if on(F04) {
                let s = snapshot(board);
                if s != snap0 {
                    self.viol("C04", "query-mutates-board:annotated-generation", item, path, snap0.diff(&s));
                }
            }
        }
        if on(F13) {
            match guarded(|| chess::chess_move::algebraic_notation::enumerate_candidate_moves_with_algebraic_notation(board, turn, &mut l.ga)) {
                Ok(lab) => {
                    let mut seen: BTreeMap<String, MoveDesc> = BTreeMap::new();
                    for (m, label) in lab.iter() {
                        let d = describe_impl(m);
                        if let Some(prev) = seen.insert(label.clone(), d) {
                            self.viol("C13", "duplicate-label", item, path, format!("label {} given to both {} and {}; position {}", label, desc_str(&prev), desc_str(&d), pos.to_fen()));
                        }
                        if let Some(i) = mdesc.iter().position(|x| *x == d) {
                            let mut want = san_body(&legal[i], &legal);
                            match effs[i] {
                                ChessMoveEffect::Check => want.push('+'),
                                ChessMoveEffect::Checkmate => want.push('#'),
                                _ => {}
                            }
                            l.n.add("labels_checked", 1);
                            if want.len() > 3 && legal[i].moved != Kind::Pawn && !want.starts_with("O-O") {
                                // piece letter + disambiguation + ...: count disambiguated labels
                                let body = san_body(&legal[i], &legal);
                                let plain_len = 1 + if legal[i].captured.is_some() { 1 } else { 0 } + 2;
                                if body.len() > plain_len {
                                    l.n.add("labels_needing_disambiguation", 1);
                                }
                            }
                            if *label != want {
                                let cls = classify_label_mismatch(label, &want);
                                self.viol("C13", &cls, item, path, format!("move {}: engine label {}, standard notation {}; position {}", desc_str(&d), label, want, pos.to_fen()));
                            }
                        }
                    }
                    if lab.len() != legal.len() {
                        self.viol("C13", "label-list-length", item, path, format!("{} labels for {} legal moves; position {}", lab.len(), legal.len(), pos.to_fen()));
                    }
                }
                Err(p) => {
                    self.viol("C13", "panic-in-notation", item, path, p);
                    if !(on(F04) && self.recover_after_query_panic(l, board, &qbackup)) {
                        return Err(());
                    }
                }
            }
            if on(F04) {
                let s = snapshot(board);
                if s != snap0 {
                    self.viol("C04", "query-mutates-board:notation", item, path, snap0.diff(&s));
                }
            }
        }
        if on(F16) {
            if snap0.half != pos.halfmove || snap0.full != 1 + pos.ply {
                self.viol("C16", "clock-absolute-value", item, path, format!("half-move clock {} (plies since last capture or pawn move: {}), move counter {} (1 + plies: {}); position {}", snap0.half, pos.halfmove, snap0.full, 1 + pos.ply, pos.to_fen()));
            }
            match guarded(|| evaluate::game_ending(board, &mut l.ga, turn)) {
                Ok(got) => {
                    l.n.add("draw_verdicts_checked", 1);
                    let is_draw = matches!(got, Some(GameEnding::Draw));
                    let terminal = legal.is_empty();
                    if pos.halfmove >= 100 {
                        l.n.add("states_at_or_past_100", 1);
                        if terminal {
                            l.n.add("terminal_states_at_threshold_unjudged", 1);
                        } else if !is_draw {
                            self.viol("C16", "no-draw-at-100", item, path, format!("half-move clock {} but the game is not reported drawn; position {}", pos.halfmove, pos.to_fen()));
                        }
                    } else if is_draw {
                        let cls = if snap0.half >= 100 { "draw-from-wrong-clock" } else { "draw-before-100" };
                        self.viol("C16", cls, item, path, format!("reported drawn with {} plies since the last capture or pawn move (engine's clock reads {}); position {}", pos.halfmove, snap0.half, pos.to_fen()));
                    }
                }
                Err(p) => self.viol("C16", "panic-in-game_ending", item, path, p),
            }
        }
        if on(F18) {
            let mirror = build_board(&pos.mirrored_rot180());
            match (guarded(|| evaluate::board_material_score(board)), guarded(|| evaluate::board_material_score(&mirror))) {
                (Ok(a), Ok(b)) => {
                    l.n.add("symmetry_pairs", 1);
                    if a as i32 != -(b as i32) {
                        self.viol("C18", "score-not-antisymmetric", item, path, format!("score {} but colour-swapped rotated position scores {}; position {}", a, b, pos.to_fen()));
                    }
                }
                (a, b) => self.viol("C18", "panic-in-evaluation", item, path, format!("{:?} / {:?}; position {}", a, b, pos.to_fen())),
            }
        }
        if on(F19) {
            let mut seen: BTreeMap<String, MoveDesc> = BTreeMap::new();
            for (m, d) in imoves.iter().zip(idesc.iter()) {
                match guarded(|| m.to_uci()) {
                    Ok(s) => {
                        l.n.add("uci_strings_checked", 1);
                        if let Some(prev) = seen.insert(s.clone(), *d) {
                            self.viol("C19", "uci-duplicate", item, path, format!("{} rendered for both {} and {}; position {}", s, desc_str(&prev), desc_str(d), pos.to_fen()));
                        }
                        if let Some(i) = mdesc.iter().position(|x| x == d) {
                            let want = uci(&legal[i]);
                            if s != want {
                                self.viol("C19", "uci-text", item, path, format!("move {} rendered {:?}, standard {:?}; position {}", desc_str(d), s, want, pos.to_fen()));
                            }
                        }
                    }
                    Err(p) => self.viol("C19", "panic-in-to_uci", item, path, p),
                }
            }
        }

        // ---------------- transient (pseudo-legal but illegal) successors: C12 / C04 ----------------
        if on(F12) || on(F04) {
            let pseudo = pos.pseudo_moves();
            let us = pos.stm;
            for pm in pseudo.iter() {
                if legal.contains(pm) {
                    continue;
                }
                l.n.add("transient_states_checked", 1);
                let im = impl_move_from_model(pm, us);
                match guarded(|| im.apply(board)) {
                    Ok(Ok(())) => {}
                    other => {
                        self.viol("C12", "transient-apply-failed", item, path, format!("pseudo-legal {} : {:?}", uci(pm), other.map(|r| r.map_err(|e| e.to_string()))));
                        return Err(());
                    }
                }
                if on(F12) {
                    let s1 = snapshot(board);
                    for (cls, det) in invariants(&s1) {
                        self.viol("C12", cls, item, path, format!("transient state after pseudo-legal {}: {} (from {})", uci(pm), det, pos.to_fen()));
                    }
                }
                match guarded(|| im.undo(board)) {
                    Ok(Ok(())) => {}
                    other => {
                        self.viol("C04", "transient-undo-failed", item, path, format!("pseudo-legal {} : {:?}", uci(pm), other.map(|r| r.map_err(|e| e.to_string()))));
                        return Err(());
                    }
                }
                if on(F04) {
                    let s2 = snapshot(board);
                    if s2 != snap0 {
                        self.viol("C04", "undo-does-not-restore(transient)", item, path, format!("after apply+undo of pseudo-legal {}: {}", uci(pm), snap0.diff(&s2)));
                        return Err(());
                    }
                }
            }
        }

        if legal.is_empty() {
            l.n.traces += 1;
        }

        // ---------------- transitions ----------------
        for i in 0..legal.len() {
            let mm = &legal[i];
            let d = &mdesc[i];
            // the generator's own move object when it lists the move; under C03 a move built through
            // the public constructors otherwise (C03 quantifies over the legal moves of the rules)
            let built;
            let im: &ChessMove = match idesc.iter().position(|x| x == d) {
                Some(j) => &imoves[j],
                None => {
                    if !on(F03) {
                        continue;
                    }
                    l.n.add("legal_moves_built_through_public_constructors", 1);
                    built = impl_move_from_model(mm, pos.stm);
                    &built
                }
            };
            let succ = &succs[i];
            match guarded(|| im.apply(board)) {
                Ok(Ok(())) => {}
                Ok(Err(e)) => {
                    self.viol("C03", "apply-failed", item, path, format!("legal move {} refused: {}; position {}", desc_str(d), e, pos.to_fen()));
                    return Err(());
                }
                Err(p) => {
                    self.viol("C03", "panic-in-apply", item, path, format!("move {}: {}; position {}", desc_str(d), p, pos.to_fen()));
                    if on(F16) && p.contains("overflow") {
                        self.viol("C16", "counter-overflow-aborts", item, path, format!("move {} with half-move clock {} and move counter {}: {}; position {}", desc_str(d), snap0.half, snap0.full, p, pos.to_fen()));
                    }
                    return Err(());
                }
            }
            l.n.transitions += 1;
            match mm.kind {
                MoveKind::CastleK => l.n.add(if pos.stm == Side::White { "castle_white_kingside" } else { "castle_black_kingside" }, 1),
                MoveKind::CastleQ => l.n.add(if pos.stm == Side::White { "castle_white_queenside" } else { "castle_black_queenside" }, 1),
                MoveKind::EnPassant => l.n.add("en_passant_captures", 1),
                MoveKind::DoubleStep => l.n.add("double_steps", 1),
                MoveKind::Promotion(k) => l.n.add(
                    match (k, mm.captured.is_some()) {
                        (Kind::Queen, false) => "promo_q",
                        (Kind::Queen, true) => "promo_q_capture",
                        (Kind::Rook, false) => "promo_r",
                        (Kind::Rook, true) => "promo_r_capture",
                        (Kind::Bishop, false) => "promo_b",
                        (Kind::Bishop, true) => "promo_b_capture",
                        (Kind::Knight, false) => "promo_n",
                        _ => "promo_n_capture",
                    },
                    1,
                ),
                MoveKind::Normal => {
                    if mm.captured.is_some() {
                        l.n.add("captures", 1)
                    }
                }
            }
            let snap1 = if on(F03) || on(F19) || on(F12) || on(F16) { Some(snapshot(board)) } else { None };
            if on(F16) {
                let s1 = snap1.as_ref().unwrap();
                l.n.add("clock_steps_checked", 1);
                let resets = mm.captured.is_some() || mm.moved == Kind::Pawn;
                let want_half = if resets { 0 } else { snap0.half + 1 };
                if resets && mm.captured.is_none() {
                    l.n.add("quiet_pawn_moves", 1);
                }
                if s1.half != want_half {
                    let cls = if mm.moved == Kind::Pawn && mm.captured.is_none() {
                        "halfmove-not-reset-on-pawn-move"
                    } else if mm.captured.is_some() {
                        "halfmove-not-reset-on-capture"
                    } else {
                        "halfmove-not-incremented"
                    };
                    self.viol("C16", cls, item, path, format!("after {} the half-move clock is {} (was {}), the rule gives {}; position {}", desc_str(d), s1.half, snap0.half, want_half, pos.to_fen()));
                }
                if s1.full != snap0.full + 1 {
                    self.viol("C16", "move-counter-step", item, path, format!("after {} the move counter went {} -> {}; position {}", desc_str(d), snap0.full, s1.full, pos.to_fen()));
                }
            }
            if on(F12) {
                // the state reached by the move (also when it is a leaf of the walk)
                for (cls, det) in invariants(snap1.as_ref().unwrap()) {
                    self.viol("C12", cls, item, path, format!("after {} from {}: {}", desc_str(d), pos.to_fen(), det));
                }
            }
            if on(F03) {
                let s1 = snap1.as_ref().unwrap();
                if s1.turn != snap0.turn {
                    self.viol("C03", "apply-changed-turn", item, path, format!("move {}; position {}", desc_str(d), pos.to_fen()));
                }
                let df = s1.diff_pos(succ);
                if !df.is_empty() {
                    let cls = if df.contains("sq[") {
                        "successor-placement"
                    } else if df.contains("rights") {
                        "successor-castling-rights"
                    } else {
                        "successor-ep-target"
                    };
                    self.viol("C03", cls, item, path, format!("after {} from {}: {}", desc_str(d), pos.to_fen(), df));
                }
                if succ.castle & !pos.castle != 0 || s1.rights & !snap0.rights != 0 {
                    self.viol("C03", "rights-grew", item, path, format!("after {} from {}", desc_str(d), pos.to_fen()));
                }
            }
            board.toggle_turn();
            path.push(*mm);
            let r = if remaining > 0 {
                self.node(l, board, succ, remaining - 1, path, item)
            } else {
                l.n.traces += 1;
                Ok(())
            };
            path.pop();
            r?;
            board.toggle_turn();
            match guarded(|| im.undo(board)) {
                Ok(Ok(())) => {}
                other => {
                    self.viol("C04", "undo-failed", item, path, format!("undo of {} : {:?}; position {}", desc_str(d), other.map(|r| r.map_err(|e| e.to_string())), pos.to_fen()));
                    return Err(());
                }
            }
            if on(F16) {
                let s2 = snapshot(board);
                if s2.half != snap0.half || s2.full != snap0.full {
                    self.viol("C16", "undo-does-not-restore-clocks", item, path, format!("after apply+undo of {}: half {} -> {}, counter {} -> {}; position {}", desc_str(d), snap0.half, s2.half, snap0.full, s2.full, pos.to_fen()));
                    return Err(());
                }
            }
            if on(F04) {
                let s2 = snapshot(board);
                l.n.add("undo_snapshots_compared", 1);
                if s2 != snap0 {
                    let df = snap0.diff(&s2);
                    let field = df.split(':').next().unwrap_or("?").split('[').next().unwrap_or("?").trim().to_string();
                    self.viol("C04", &format!("undo-does-not-restore:{}", field), item, path, format!("after apply+undo of {} at nesting depth {}: {}; position {}", desc_str(d), item.prefix.len() + path.len() + 1, df, pos.to_fen()));
                    return Err(());
                }
            }
            if on(F19) {
                // read the rendered text back in the same position and compare the effect
                let text = im.to_uci();
                match guarded(|| chess::game::stockfish_elo::verif_create_chess_move_from_uci(&text, board)) {
                    Ok(back) => {
                        l.n.add("uci_roundtrips", 1);
                        let bd = describe_impl(&back);
                        let mut ok = bd == *d;
                        let mut det = String::new();
                        if ok {
                            match guarded(|| back.apply(board)) {
                                Ok(Ok(())) => {
                                    let sb = snapshot(board);
                                    if Some(&sb) != snap1.as_ref() {
                                        ok = false;
                                        det = format!("applying the re-read move gives a different position: {}", snap1.as_ref().unwrap().diff(&sb));
                                    }
                                    if !matches!(guarded(|| back.undo(board)), Ok(Ok(()))) {
                                        self.viol("C19", "uci-roundtrip", item, path, format!("re-read move {} cannot be undone; position {}", text, pos.to_fen()));
                                        return Err(());
                                    }
                                }
                                other => {
                                    self.viol("C19", "uci-roundtrip", item, path, format!("re-read move {} cannot be applied: {:?}; position {}", text, other.map(|r| r.map_err(|e| e.to_string())), pos.to_fen()));
                                    return Err(());
                                }
                            }
                        } else {
                            det = format!("re-read as {} instead of {}", desc_str(&bd), desc_str(d));
                        }
                        if !ok {
                            self.viol("C19", "uci-roundtrip", item, path, format!("text {}: {}; position {}", text, det, pos.to_fen()));
                        }
                    }
                    Err(p) => self.viol("C19", "uci-roundtrip", item, path, format!("reader panicked on {}: {}; position {}", text, p, pos.to_fen())),
                }
            }
        }
        self.renew(l);
        Ok(())
    }
}

pub fn uncanon(k: &CKey) -> Pos {
    let mut p = Pos::empty();
    for s in 0..64usize {
        let c = ((k[s / 16] >> ((s % 16) * 4)) & 0xF) as u8;
        if c != 0 {
            let kind = KINDS[((c - 1) % 6) as usize];
            let side = if (c - 1) / 6 == 0 { Side::White } else { Side::Black };
            p.sq[s] = Some((kind, side));
        }
    }
    p.stm = if k[4] & 1 == 0 { Side::White } else { Side::Black };
    p.castle = ((k[4] >> 1) & 0xF) as u8;
    let e = (k[4] >> 5) & 0x7F;
    p.ep = if e == 0 { None } else { Some((e - 1) as u8) };
    p
}

fn classify_label_mismatch(got: &str, want: &str) -> String {
    let strip = |s: &str| s.trim_end_matches(['+', '#']).to_string();
    if strip(got) == strip(want) {
        return "label-check-suffix".to_string();
    }
    if got.replace('x', "") == want.replace('x', "") {
        return "label-capture-mark".to_string();
    }
    if got.len() < want.len() {
        return "label-missing-disambiguation".to_string();
    }
    if got.len() > want.len() {
        return "label-over-disambiguated".to_string();
    }
    "label-text".to_string()
}

/// Expand a seed into work items: every path shorter than `split` becomes a visit-only item
/// (remaining 0), every path of length `split` a subtree item.
pub fn items_for(seed_name: &str, seed_fen: &str, root: &Pos, depth: u32, split: u32) -> Vec<Item> {
    let mut out = Vec::new();
    let split = split.min(depth);
    fn rec(out: &mut Vec<Item>, seed_name: &str, seed_fen: &str, root: &Pos, pos: &Pos, prefix: &mut Vec<Move>, depth: u32, split: u32) {
        let plen = prefix.len() as u32;
        if plen == split {
            out.push(Item { seed_name: seed_name.to_string(), seed_fen: seed_fen.to_string(), root: root.clone(), prefix: prefix.clone(), remaining: depth - split });
            return;
        }
        out.push(Item { seed_name: seed_name.to_string(), seed_fen: seed_fen.to_string(), root: root.clone(), prefix: prefix.clone(), remaining: 0 });
        for m in pos.legal_moves() {
            let n = pos.make(&m);
            prefix.push(m);
            rec(out, seed_name, seed_fen, root, &n, prefix, depth, split);
            prefix.pop();
        }
    }
    let mut prefix = Vec::new();
    rec(&mut out, seed_name, seed_fen, root, root, &mut prefix, depth, split);
    out
}

pub fn fill_report(rep: &mut Report, w: &Walker, n: &Counters) {
    rep.states += if w.cfg.dedup { w.distinct_states() } else { n.states };
    rep.transitions += n.transitions;
    rep.traces += n.traces;
    rep.add("node_visits", n.visits);
    rep.add("merged_arrivals", n.merged);
    rep.add("reexpanded_states", n.reexpanded);
    for (k, v) in &n.c {
        rep.add(k, *v);
    }
    if w.timed_out.load(Ordering::Relaxed) {
        rep.exhaustive = false;
        rep.notes.push(format!("wall cap of {} s hit: not every planned work item was explored", w.cfg.wall_cap_s));
    }
}

/// Deep graph DFS (C04 / C12): depth-first over the canonical state graph of a small position
/// on ONE live board, so that paths grow to hundreds of plies before backtracking; every undo is
/// compared with the snapshot taken before the matching apply (a stack of snapshots as long as
/// the path), invariants are evaluated in every state.  Each canonical state is entered once;
/// the path length is capped (`max_len`) and the number of states too (`max_states`).
/// Returns (states, transitions, longest path, undo comparisons).
pub fn deep_paths(owner: &str, seed_name: &str, fen: &str, max_len: usize, max_states: usize, check_undo: bool, check_inv: bool, sink: &Sink) -> (u64, u64, u64, u64) {
    let root = Pos::from_fen(fen).unwrap();
    let mut board = build_board(&root);
    let mut seen: std::collections::HashSet<CKey> = std::collections::HashSet::new();
    seen.insert(canon(&root));
    struct Frame {
        pos: Pos,
        moves: Vec<Move>,
        next: usize,
        snap: Snap,
        applied: Option<ChessMove>,
    }
    let viol = |prop: &str, class: &str, path: &[Move], detail: String| {
        if prop == owner {
            sink.push(Violation { prop: prop.into(), class: class.into(), seed: fen.into(), path: path_uci(path), detail, extra: json!({"seed_name": seed_name, "kind": "deep-path"}) });
        }
    };
    let mut path: Vec<Move> = Vec::new();
    let first_moves = root.legal_moves();
    let mut stack: Vec<Frame> = vec![Frame { snap: snapshot(&board), pos: root, moves: first_moves, next: 0, applied: None }];
    let (mut states, mut trans, mut longest, mut undos) = (1u64, 0u64, 0u64, 0u64);
    loop {
        let depth_now = stack.len();
        let top = match stack.last_mut() {
            Some(t) => t,
            None => break,
        };
        if top.next < top.moves.len() && depth_now <= max_len && (states as usize) < max_states {
            let m = top.moves[top.next];
            top.next += 1;
            let succ = top.pos.make(&m);
            if !seen.insert(canon(&succ)) {
                continue;
            }
            let stm = top.pos.stm;
            let im = impl_move_from_model(&m, stm);
            match guarded(|| im.apply(&mut board)) {
                Ok(Ok(())) => {}
                other => {
                    viol("C04", "deep-apply-failed", &path, format!("{}: {:?}", uci(&m), other.map(|r| r.map_err(|e| e.to_string()))));
                    viol("C12", "deep-apply-failed", &path, uci(&m));
                    return (states, trans, longest, undos);
                }
            }
            board.toggle_turn();
            trans += 1;
            states += 1;
            path.push(m);
            longest = longest.max(path.len() as u64);
            let snap = snapshot(&board);
            if check_inv {
                for (cls, det) in invariants(&snap) {
                    viol("C12", cls, &path, format!("{} after {} plies in {}", det, path.len(), succ.to_fen()));
                }
                let d = snap.diff_pos(&succ);
                if !d.is_empty() {
                    viol("C12", "deep-state-differs-from-model", &path, d);
                }
            }
            let moves = succ.legal_moves();
            stack.push(Frame { pos: succ, moves, next: 0, snap, applied: Some(im) });
        } else {
            // backtrack: undo the move that led here and compare with the parent's snapshot
            let fr = stack.pop().unwrap();
            if let Some(im) = fr.applied {
                board.toggle_turn();
                match guarded(|| im.undo(&mut board)) {
                    Ok(Ok(())) => {}
                    other => {
                        viol("C04", "deep-undo-failed", &path, format!("{:?}", other.map(|r| r.map_err(|e| e.to_string()))));
                        return (states, trans, longest, undos);
                    }
                }
                if check_undo {
                    undos += 1;
                    let parent = &stack.last().unwrap().snap;
                    let now = snapshot(&board);
                    if now != *parent {
                        viol("C04", "undo-does-not-restore(deep-path)", &path, format!("undoing ply {} of a {}-ply path: {}", path.len(), longest, parent.diff(&now)));
                        return (states, trans, longest, undos);
                    }
                }
                path.pop();
            }
        }
    }
    (states, trans, longest, undos)
}

pub const DEEP_SEEDS: &[(&str, &str)] = &[
    ("krk", "8/8/8/8/8/k7/8/K6R w - - 0 1"),
    ("kqk-corner", "7k/8/5K2/8/8/8/8/6Q1 w - - 0 1"),
    ("castle-base-w", "r3k2r/8/8/8/8/8/8/R3K2R w KQkq - 0 1"),
    ("promo-race", "n1n5/PPPk4/8/8/8/8/4Kppp/5N1N b - - 0 1"),
    ("ep-transpose-castle", "r3k2r/1p5p/8/8/8/8/P6P/R3K2R w KQkq - 0 1"),
    ("kiwipete", "r3k2r/p1ppqpb1/bn2pnp1/3PN3/1p2P3/2N2Q1p/PPPBBPPP/R3K2R w KQkq - 0 1"),
];

/// A legal game of `n` plies from the initial position that keeps all four castling rights and a
/// small half-move clock: both sides shuffle their king's knight, and push a rook pawn one
/// square whenever the clock passes 80 (C04: nesting depths around the 255 / 256 boundary).
pub fn preroll_game(n: usize) -> Vec<Move> {
    preroll_game_from(&Pos::startpos(), n)
}

/// Root for long games that end one ply before an en-passant capture becomes available to either
/// side (white pawn e5 beside d7/f7, black pawn d4 beside c2/e2... all castling rights, knights
/// on their home squares for the shuffle).
pub const LONG_GAME_EP_ROOT: &str = "rnbqkbnr/pppp1ppp/8/4P3/3p4/8/PPPP1PPP/RNBQKBNR w KQkq - 0 1";

/// same shuffle from any root that has the king's knights at home and the rook/knight pawns unmoved
/// a long game that opens with the given moves (e.g. double pawn steps) and then shuffles
pub fn preroll_game_opening(opening: &[&str], n: usize) -> Vec<Move> {
    let mut p = Pos::startpos();
    let mut out = Vec::new();
    for u in opening {
        let m = *p.legal_moves().iter().find(|m| uci(m) == *u).expect("preroll opening move");
        p = p.make(&m);
        out.push(m);
    }
    let rest = preroll_game_from(&p, n.saturating_sub(out.len()));
    out.extend(rest);
    out
}

pub fn preroll_game_from(root: &Pos, n: usize) -> Vec<Move> {
    preroll_game_special(root, n, None).expect("preroll")
}

/// The shuffle game, optionally with one "special" move as ply number `special.0` (1-based):
/// kind 0 = double step of the c-pawn (c2c4 / c7c5, sets an en-passant target that the reply must
/// clear), kind 1 = the king's rook steps to the g-file (h1g1 / h8g8, a castling right is lost).
/// None when the special move is not legal at that ply.  Games longer than 1000 plies let the
/// half-move clock run to 150 between pawn moves (24 single pawn steps are available).
pub fn preroll_game_special(root: &Pos, n: usize, special: Option<(usize, u8)>) -> Option<Vec<Move>> {
    let mut p = root.clone();
    let mut out = Vec::new();
    let resets = [
        "a2a3", "a7a6", "h2h3", "h7h6", "a3a4", "a6a5", "h3h4", "h6h5", "b2b3", "b7b6", "g2g3", "g7g6", "b3b4", "b6b5", "g3g4", "g6g5", "d2d3", "d7d6", "e2e3", "e7e6", "d3d4", "d6d5", "e3e4", "e6e5",
    ];
    let threshold = if n > 1000 { 150 } else { 80 };
    let mut next_reset = 0;
    while out.len() < n {
        let legal = p.legal_moves();
        let mut pick: Option<Move> = None;
        if let Some((at, kind)) = special {
            if out.len() + 1 == at {
                let want = match (kind, p.stm) {
                    (0, Side::White) => "c2c4",
                    (0, Side::Black) => "c7c5",
                    (_, Side::White) => "h1g1",
                    (_, Side::Black) => "h8g8",
                };
                pick = Some(legal.iter().find(|m| uci(m) == want).copied()?);
            }
        }
        if pick.is_none() && p.halfmove >= threshold && next_reset < resets.len() {
            let want = resets[next_reset];
            let white_move = want.as_bytes()[1] < b'5';
            if white_move == (p.stm == Side::White) {
                pick = legal.iter().find(|m| uci(m) == want).copied();
                // a step that is not available in this game (blocked file) is skipped
                next_reset += 1;
            }
        }
        let m = match pick {
            Some(m) => m,
            None => {
                // knight shuffle: the king's knight out and back; the queen's knight when that is not possible
                let cands: [&str; 4] = if p.stm == Side::White { ["g1f3", "f3g1", "b1c3", "c3b1"] } else { ["g8f6", "f6g8", "b8c6", "c6b8"] };
                let mut found = None;
                for c in cands {
                    if let Some(m) = legal.iter().find(|m| uci(m) == c) {
                        found = Some(*m);
                        break;
                    }
                }
                found.expect("preroll: knight shuffle not available")
            }
        };
        p = p.make(&m);
        out.push(m);
    }
    Some(out)
}
