//! Helpers shared by the search properties (C07, C08, C09): calling the real search and the
//! reference fixed-depth minimax.

use crate::bind::*;
use crate::refchess::*;
use crate::walk::impl_move_from_model;
use chess::alpha_beta_searcher::{alpha_beta_search, SearchContext, SearchError};
use chess::board::Board;
use chess::evaluate;
use chess::move_generator::MoveGenerator;

#[derive(Clone, Debug, PartialEq, Eq)]
pub enum Outcome {
    Move(MoveDesc, Option<i16>),
    NoAvailableMoves,
    DepthTooLow,
    Panic(String),
}

/// Run the real search on a board built for `pos`.  Returns the outcome and whether the
/// caller's board was observably untouched.
pub fn run_search(board: &mut Board, ctx: &mut SearchContext, g: &mut MoveGenerator) -> (Outcome, bool) {
    let before = snapshot(board);
    let r = guarded(|| alpha_beta_search(ctx, board, g));
    let out = match r {
        Ok(Ok(m)) => Outcome::Move(describe_impl(&m), ctx.last_score()),
        Ok(Err(SearchError::NoAvailableMoves)) => Outcome::NoAvailableMoves,
        Ok(Err(SearchError::DepthTooLow)) => Outcome::DepthTooLow,
        Err(p) => Outcome::Panic(p),
    };
    let untouched = guarded(|| snapshot(board)).map(|s| s == before).unwrap_or(false);
    (out, untouched)
}

/// Use a small LRU capacity for every generator the engine (and the harness) creates from now
/// on: construction drops from ~100 ms / 134 MB to a few ms.  Eviction cannot change the
/// answers of a correct cache; C01 / C02 / C10 never call this.
pub fn use_small_generators() {
    chess::verif_hooks::set_lru_capacity(1 << 17);
    // copy one process-wide build of the magic lookup tables instead of rebuilding them for every
    // generator (table correctness is C11's subject and is checked without this seam)
    chess::verif_hooks::set_share_magic_tables(true);
    let _ = MoveGenerator::new();
}

/// Exact fixed-depth minimax value of `pos` (side `pos.stm` to move) with `depth` plies left,
/// transitions from the MODEL's move generator, leaves scored by the engine's public
/// `evaluate::score` on the real board.  No pruning, no result cache.
pub fn minimax(pos: &Pos, board: &mut Board, g: &mut MoveGenerator, depth: u8, nodes: &mut u64) -> i16 {
    *nodes += 1;
    let turn = color_of(pos.stm);
    debug_assert!(board.turn() == turn);
    if depth == 0 {
        return evaluate::score(board, g, turn, 0);
    }
    let legal = pos.legal_moves();
    if legal.is_empty() {
        return evaluate::score(board, g, turn, depth);
    }
    let maximizing = pos.stm == Side::White;
    let mut best = if maximizing { i16::MIN } else { i16::MAX };
    for m in legal.iter() {
        let im = impl_move_from_model(m, pos.stm);
        im.apply(board).expect("oracle: apply");
        board.toggle_turn();
        let v = minimax(&pos.make(m), board, g, depth - 1, nodes);
        board.toggle_turn();
        im.undo(board).expect("oracle: undo");
        best = if maximizing { best.max(v) } else { best.min(v) };
    }
    best
}

/// minimax value of every root move and the root value
pub fn root_values(pos: &Pos, depth: u8, nodes: &mut u64) -> (Vec<(Move, i16)>, Option<i16>) {
    let mut board = build_board(pos);
    let mut g = MoveGenerator::new();
    let legal = pos.legal_moves();
    let mut out = Vec::new();
    for m in legal.iter() {
        let im = impl_move_from_model(m, pos.stm);
        im.apply(&mut board).expect("oracle: apply");
        board.toggle_turn();
        let v = minimax(&pos.make(m), &mut board, &mut g, depth - 1, nodes);
        board.toggle_turn();
        im.undo(&mut board).expect("oracle: undo");
        out.push((*m, v));
    }
    let root = if pos.stm == Side::White { out.iter().map(|x| x.1).max() } else { out.iter().map(|x| x.1).min() };
    (out, root)
}

/// Memo of exact minimax values (leaves included).  value(position,
/// plies left) is a pure function (clocks are kept far from the draw threshold by the callers,
/// see C08's quantifier), so remembering it changes nothing but the time: many histories of one
/// seed share most of their subtrees by transposition.
pub struct MinimaxMemo {
    shards: Vec<std::sync::Mutex<rustc_hash::FxHashMap<(CKey, u8), i16>>>,
    pub hits: std::sync::atomic::AtomicU64,
    len: std::sync::atomic::AtomicU64,
}

impl Default for MinimaxMemo {
    fn default() -> Self {
        MinimaxMemo { shards: (0..64).map(|_| Default::default()).collect(), hits: Default::default(), len: Default::default() }
    }
}

impl MinimaxMemo {
    /// bounded: beyond 12 million entries nothing more is remembered (values are then recomputed)
    fn insert(&self, k: CKey, depth: u8, v: i16) {
        if self.len.load(std::sync::atomic::Ordering::Relaxed) < 12_000_000 {
            if self.shard(&k).lock().unwrap().insert((k, depth), v).is_none() {
                self.len.fetch_add(1, std::sync::atomic::Ordering::Relaxed);
            }
        }
    }
    fn shard(&self, k: &CKey) -> &std::sync::Mutex<rustc_hash::FxHashMap<(CKey, u8), i16>> {
        &self.shards[(k[0] ^ k[1] ^ k[2] ^ k[3]) as usize % 64]
    }
}

/// `minimax` with the memo (same recursion, same leaf evaluation)
pub fn minimax_memo(pos: &Pos, board: &mut Board, g: &mut MoveGenerator, depth: u8, nodes: &mut u64, memo: &MinimaxMemo) -> i16 {
    let k = canon(pos);
    if let Some(v) = memo.shard(&k).lock().unwrap().get(&(k, depth)) {
        memo.hits.fetch_add(1, std::sync::atomic::Ordering::Relaxed);
        return *v;
    }
    *nodes += 1;
    let turn = color_of(pos.stm);
    if depth == 0 {
        let v = evaluate::score(board, g, turn, 0);
        memo.insert(k, 0, v);
        return v;
    }
    let legal = pos.legal_moves();
    if legal.is_empty() {
        return evaluate::score(board, g, turn, depth);
    }
    let maximizing = pos.stm == Side::White;
    let mut best = if maximizing { i16::MIN } else { i16::MAX };
    for m in legal.iter() {
        let im = impl_move_from_model(m, pos.stm);
        im.apply(board).expect("oracle: apply");
        board.toggle_turn();
        let v = minimax_memo(&pos.make(m), board, g, depth - 1, nodes, memo);
        board.toggle_turn();
        im.undo(board).expect("oracle: undo");
        best = if maximizing { best.max(v) } else { best.min(v) };
    }
    memo.insert(k, depth, best);
    best
}

pub fn root_values_memo(pos: &Pos, depth: u8, nodes: &mut u64, memo: &MinimaxMemo) -> (Vec<(Move, i16)>, Option<i16>) {
    let mut board = build_board(pos);
    let mut g = MoveGenerator::new();
    let legal = pos.legal_moves();
    let mut out = Vec::new();
    for m in legal.iter() {
        let im = impl_move_from_model(m, pos.stm);
        im.apply(&mut board).expect("oracle: apply");
        board.toggle_turn();
        let v = minimax_memo(&pos.make(m), &mut board, &mut g, depth - 1, nodes, memo);
        board.toggle_turn();
        im.undo(&mut board).expect("oracle: undo");
        out.push((*m, v));
    }
    let root = if pos.stm == Side::White { out.iter().map(|x| x.1).max() } else { out.iter().map(|x| x.1).min() };
    (out, root)
}
