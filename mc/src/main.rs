//! mc — bounded exhaustive model checking of codyjk/chess (see /verif/DESIGN.md).
//!
//! usage: mc <C01..C19> --tier quick|thorough [--seed N]
//!        mc selftest
//!        mc replay <file>
//! exit: 0 property held on everything explored (or only listed known findings),
//!       1 violation (a `VIOLATION property=.. replay=..` line is printed),
//!       2 machinery error (never a verdict).
#![allow(dead_code, private_interfaces, unused_mut)]


mod bind;
mod draws;
mod props;
mod refchess;
mod report;
mod sched;
mod search;
mod seeds;
mod walk;

use std::process::exit;

pub struct Args {
    pub prop: String,
    pub tier: String,
    pub seed: u64,
    pub threads: usize,
}

fn main() {
    bind::install_panic_hook();
    let argv: Vec<String> = std::env::args().collect();
    if argv.len() < 2 {
        eprintln!("usage: mc <Cxx|selftest|replay> ...");
        exit(2);
    }
    let mut tier = std::env::var("VERIF_TIER").unwrap_or_else(|_| "quick".to_string());
    let mut seed: u64 = std::env::var("VERIF_SEED").ok().and_then(|s| s.parse().ok()).unwrap_or(0);
    let mut threads: usize = std::env::var("VERIF_THREADS").ok().and_then(|s| s.parse().ok()).unwrap_or_else(|| std::thread::available_parallelism().map(|n| n.get()).unwrap_or(8));
    let mut rest: Vec<String> = Vec::new();
    let mut i = 2;
    while i < argv.len() {
        match argv[i].as_str() {
            "--tier" => {
                tier = argv[i + 1].clone();
                i += 1;
            }
            "--seed" => {
                seed = argv[i + 1].parse().unwrap_or(0);
                i += 1;
            }
            "--threads" => {
                threads = argv[i + 1].parse().unwrap_or(threads);
                i += 1;
            }
            x => rest.push(x.to_string()),
        }
        i += 1;
    }
    if tier != "quick" && tier != "thorough" {
        eprintln!("MACHINERY-ERROR: unknown tier {}", tier);
        exit(2);
    }
    let cmd = argv[1].clone();
    let code = match cmd.as_str() {
        "selftest" => selftest(20_000_000),
        "replay" => {
            if rest.is_empty() {
                eprintln!("usage: mc replay <file>");
                2
            } else {
                props::replay(&rest[0])
            }
        }
        p => {
            // every check starts by re-validating the reference model (shallow) and the seeds
            let st = selftest(if tier == "quick" { 500_000 } else { 5_000_000 });
            if st != 0 {
                exit(st);
            }
            let a = Args { prop: p.to_string(), tier, seed, threads };
            let r = std::panic::catch_unwind(|| props::run(&a));
            match r {
                Ok(c) => c,
                Err(_) => {
                    eprintln!("MACHINERY-ERROR: harness panic (not a verdict)");
                    2
                }
            }
        }
    };
    exit(code);
}

fn selftest(max_nodes: u64) -> i32 {
    let t = std::time::Instant::now();
    if let Err(e) = seeds::validate_seeds() {
        eprintln!("MACHINERY-ERROR: {}", e);
        return 2;
    }
    if max_nodes >= 20_000_000 {
        // full self-test (./check build): also the lock-model pipeline (spin + gcc)
        if let Err(e) = props::c09_locks::selftest() {
            eprintln!("MACHINERY-ERROR: {}", e);
            return 2;
        }
        println!("[selftest] lock-model pipeline: spin finds the deadlock of an inverted lock order and none for a consistent one");
    }
    match refchess::selftest(max_nodes) {
        Ok(n) => {
            println!("[selftest] reference model reproduces {} published perft entries (<= {} nodes each) in {:.1}s", n, max_nodes, t.elapsed().as_secs_f64());
            0
        }
        Err(e) => {
            eprintln!("MACHINERY-ERROR: {}", e);
            2
        }
    }
}
