//! C18 — static evaluation is colour-symmetric and always dominated by mate scores.

use crate::bind::*;
use crate::refchess::*;
use crate::report::{Report, Sink, Violation};
use crate::seeds::*;
use crate::walk::*;
use crate::Args;
use chess::board::Board;
use chess::evaluate;
use chess::move_generator::MoveGenerator;
use serde_json::json;
use std::collections::HashSet;

fn board_of(pieces: &[(Kind, Side, u8)]) -> Board {
    let mut b = Board::new();
    for &(k, s, sq) in pieces {
        b.put(bb(sq), piece_of(k), color_of(s)).unwrap();
    }
    b
}

fn mirror(pieces: &[(Kind, Side, u8)]) -> Vec<(Kind, Side, u8)> {
    pieces.iter().map(|&(k, s, sq)| (k, s.other(), 63 - sq)).collect()
}

fn score_of(pieces: &[(Kind, Side, u8)]) -> Result<i16, String> {
    let b = board_of(pieces);
    guarded(|| evaluate::board_material_score(&b))
}

fn v(class: &str, seed: String, detail: String, extra: serde_json::Value) -> Violation {
    Violation { prop: "C18".into(), class: class.into(), seed, path: vec![], detail, extra }
}

fn describe(pieces: &[(Kind, Side, u8)]) -> String {
    pieces.iter().map(|(k, s, q)| format!("{}{:?}@{}", if *s == Side::White { "w" } else { "b" }, k, sq_name(*q))).collect::<Vec<_>>().join(" ")
}

pub fn run(a: &Args) -> i32 {
    let mut rep = Report::new("C18", &a.tier, a.seed);
    let sink = Sink::new(6);
    let thorough = a.tier == "thorough";
    let mut evals = 0u64;
    let mut outcomes: HashSet<i32> = HashSet::new();

    // ---- part 1: every table cell, both contexts ----
    // context pieces (mirror-symmetric set): none = endgame tables; queens+rooks = midgame tables
    let ctx_mid: Vec<(Kind, Side, u8)> = vec![(Kind::Queen, Side::White, D1), (Kind::Rook, Side::White, A1), (Kind::Queen, Side::Black, 63 - D1), (Kind::Rook, Side::Black, 63 - A1)];
    // second midgame context on other squares so that the cells under the first one are read too
    let ctx_mid_b: Vec<(Kind, Side, u8)> = vec![(Kind::Queen, Side::White, 12), (Kind::Rook, Side::White, 9), (Kind::Queen, Side::Black, 63 - 12), (Kind::Rook, Side::Black, 63 - 9)];
    let mut bonus = vec![[[0i32; 64]; 2]; 6]; // [kind][context][sq] black-box read (score of white piece alone minus its value)
    let values = [100, 320, 330, 500, 900, 20000];
    for k in KINDS {
        for sq in 0..64u8 {
            for (ci, ctx) in [(0usize, Vec::new()), (1usize, ctx_mid.clone()), (1usize, ctx_mid_b.clone())].iter() {
                let ci = *ci;
                if ctx.iter().any(|c| c.2 == sq || c.2 == 63 - sq) {
                    continue;
                }
                for side in [Side::White, Side::Black] {
                    let mut ps = ctx.clone();
                    ps.push((k, side, sq));
                    let m = mirror(&ps);
                    evals += 2;
                    match (score_of(&ps), score_of(&m)) {
                        (Ok(x), Ok(y)) => {
                            outcomes.insert(x as i32);
                            if x as i32 != -(y as i32) {
                                sink.push(v("table-cell-not-antisymmetric", describe(&ps), format!("score {} vs colour-swapped rotated {}", x, y), json!({"kind": "c18-pieces", "pieces": describe(&ps)})));
                            }
                            if side == Side::White {
                                let base = if ctx.is_empty() { 0 } else { score_of(ctx).unwrap_or(0) as i32 };
                                bonus[k as usize][ci][sq as usize] = x as i32 - base - values[k as usize];
                            }
                        }
                        (x, y) => sink.push(v("evaluation-panics", describe(&ps), format!("{:?} / {:?}", x, y), json!({"kind": "c18-pieces", "pieces": describe(&ps)}))),
                    }
                }
            }
        }
    }
    rep.add("table_cell_pairs", evals / 2);

    // ---- part 1b: asymmetric material contexts (the endgame switch looks at both sides) ----
    // each side independently gets one of six context sets on fixed squares; every piece cell is
    // then read in each of the 36 combinations and compared with the colour-swapped rotated board
    {
        let side_ctx: [&[(Kind, u8)]; 6] = [&[], &[(Kind::Queen, D1)], &[(Kind::Queen, D1), (Kind::Knight, 1)], &[(Kind::Queen, D1), (Kind::Rook, A1)], &[(Kind::Knight, 1)], &[(Kind::Rook, A1), (Kind::Knight, 1)]];
        let mut n = 0u64;
        for wc in side_ctx.iter() {
            for bc in side_ctx.iter() {
                let mut ctx: Vec<(Kind, Side, u8)> = Vec::new();
                for (k, s) in wc.iter() {
                    ctx.push((*k, Side::White, *s));
                }
                for (k, s) in bc.iter() {
                    ctx.push((*k, Side::Black, 63 - *s));
                }
                for k in KINDS {
                    for sq in 0..64u8 {
                        if ctx.iter().any(|c| c.2 == sq) {
                            continue;
                        }
                        for side in [Side::White, Side::Black] {
                            let mut ps = ctx.clone();
                            ps.push((k, side, sq));
                            let m = mirror(&ps);
                            n += 1;
                            evals += 2;
                            match (score_of(&ps), score_of(&m)) {
                                (Ok(x), Ok(y)) => {
                                    outcomes.insert(x as i32);
                                    if x as i32 != -(y as i32) {
                                        sink.push(v("score-not-antisymmetric-in-asymmetric-material", describe(&ps), format!("score {} vs colour-swapped rotated {}", x, y), json!({"kind": "c18-pieces", "pieces": describe(&ps)})));
                                    }
                                }
                                (x, y) => sink.push(v("evaluation-panics", describe(&ps), format!("{:?} / {:?}", x, y), json!({"kind": "c18-pieces", "pieces": describe(&ps)}))),
                            }
                        }
                    }
                }
            }
        }
        rep.add("asymmetric_context_pairs", n);
    }

    // ---- part 2: every walked position and its mirror ----
    {
        let mut items = Vec::new();
        for sd in TREE_SEEDS {
            let d = depth_for(sd, &a.tier);
            let root = Pos::from_fen(sd.fen).unwrap();
            let split = if d >= 3 { 2 } else if d == 2 { 1 } else { 0 };
            items.extend(items_for(sd.name, sd.fen, &root, d, split));
        }
        let cfg = WalkCfg { owner: "C18".into(), flags: F18, dedup: true, gen_renew: 60_000, threads: a.threads, wall_cap_s: if thorough { 3600 } else { 240 } };
        let w = Walker::new(cfg, &sink);
        let n = w.run(&items);
        fill_report(&mut rep, &w, &n);
    }

    // ---- part 3: material lattice at the extremes ----
    // every legal material vector of one side: p pawns (0..8), promoted pieces <= 8 - p distributed
    // over q/r/b/n on top of the initial 1/2/2/2, each count possibly reduced by captures.
    let mut vectors: Vec<[u8; 5]> = Vec::new(); // p, n, b, r, q
    for p in 0..=8u8 {
        let promo_max = 8 - p;
        for q in 0..=(1 + promo_max) {
            for r in 0..=(2 + promo_max) {
                for b in 0..=(2 + promo_max) {
                    for n in 0..=(2 + promo_max) {
                        let need = q.saturating_sub(1) + r.saturating_sub(2) + b.saturating_sub(2) + n.saturating_sub(2);
                        if need <= promo_max {
                            vectors.push([p, n, b, r, q]);
                        }
                    }
                }
            }
        }
    }
    // quick: only vectors on the boundary (need == promo_max or all counts extreme); thorough: all
    let smallest_mate: i32 = 16383; // min(|i16::MAX/2 + d|, |i16::MIN/2 - d|) over d = 0..255, checked in part 4
    let mut max_abs = 0i32;
    let mut lattice = 0u64;
    let place = |vec: &[u8; 5], side: Side, best: bool, ctx: usize, bonus: &Vec<[[i32; 64]; 2]>, taken: &mut u64| -> Vec<(Kind, Side, u8)> {
        // squares from white's point of view; a black piece on 63-s reads the same cell
        let mut out = Vec::new();
        let order = [(Kind::King, 1u8), (Kind::Queen, vec[4]), (Kind::Rook, vec[3]), (Kind::Bishop, vec[2]), (Kind::Knight, vec[1]), (Kind::Pawn, vec[0])];
        for (k, cnt) in order {
            let mut sqs: Vec<u8> = (0..64u8).filter(|s| !(k == Kind::Pawn && (s / 8 == 0 || s / 8 == 7))).collect();
            sqs.sort_by_key(|s| {
                let bn = bonus[k as usize][ctx][*s as usize];
                if best {
                    -bn
                } else {
                    bn
                }
            });
            let mut placed = 0;
            for s in sqs {
                if placed == cnt {
                    break;
                }
                let real = if side == Side::White { s } else { 63 - s };
                if *taken & (1u64 << real) != 0 {
                    continue;
                }
                *taken |= 1u64 << real;
                out.push((k, side, real));
                placed += 1;
            }
        }
        out
    };
    for vec in vectors.iter() {
        let promo_max = 8 - vec[0];
        let need = vec[4].saturating_sub(1) + vec[3].saturating_sub(2) + vec[2].saturating_sub(2) + vec[1].saturating_sub(2);
        if !thorough && need != promo_max && !(vec[1..].iter().all(|c| *c == 0)) {
            continue;
        }
        for opp_has_queen in [false, true] {
            let ctx = if vec[4] > 0 || opp_has_queen { 1 } else { 0 };
            // the strong side on its best cells and on its worst cells; each board is built for White
            // and, mirrored, for Black: the two scores must be exact negatives of each other
            for strong_best in [true, false] {
                let mut pair: Vec<(i16, String)> = Vec::new();
                for strong in [Side::White, Side::Black] {
                    let mut taken = 0u64;
                    let mut ps = place(vec, strong, strong_best, ctx, &bonus, &mut taken);
                    let weak_vec = [0, 0, 0, 0, if opp_has_queen { 1 } else { 0 }];
                    ps.extend(place(&weak_vec, strong.other(), false, ctx, &bonus, &mut taken));
                    lattice += 1;
                    evals += 1;
                    match score_of(&ps) {
                        Ok(s) => {
                            outcomes.insert(s as i32);
                            max_abs = max_abs.max((s as i32).abs());
                            if (s as i32).abs() >= smallest_mate {
                                sink.push(v("static-score-reaches-mate-range", describe(&ps), format!("static score {} is not strictly below the smallest mate magnitude {}", s, smallest_mate), json!({"kind": "c18-pieces", "pieces": describe(&ps)})));
                            }
                            pair.push((s, describe(&ps)));
                        }
                        Err(p) => sink.push(v("evaluation-overflows", describe(&ps), p, json!({"kind": "c18-pieces", "pieces": describe(&ps)}))),
                    }
                }
                if pair.len() == 2 && pair[0].0 as i32 != -(pair[1].0 as i32) {
                    sink.push(v("static-score-not-colour-symmetric", pair[0].1.clone(), format!("score {} for [{}], score {} for the colour-swapped rotated board [{}]", pair[0].0, pair[0].1, pair[1].0, pair[1].1), json!({"kind": "c18-pieces", "pieces": pair[0].1})));
                }
            }
        }
    }
    rep.add("material_vectors_enumerated", vectors.len() as u64);
    rep.add("material_extreme_boards_scored", lattice);
    rep.add("largest_static_magnitude_seen", max_abs as u64);

    // ---- part 4: mate and stalemate scores for every remaining depth 0..255 ----
    let (mates, stales) = terminal_positions(&a.tier);
    let mut g = MoveGenerator::new();
    let mut mate_evals = 0u64;
    for (list, is_mate) in [(&mates, true), (&stales, false)] {
        for p in list.iter() {
            let mut b = build_board(p);
            let turn = color_of(p.stm);
            let mut prev: Option<i16> = None;
            // the same generator is first asked about this very position with 100 plies on the
            // half-move clock (a drawn game; that score is not judged): scores with a fresh clock
            // must not be coloured by it
            {
                let mut pc = p.clone();
                pc.halfmove = 100;
                pc.ply = if pc.stm == Side::White { 200 } else { 201 };
                let mut bc = build_board(&pc);
                let _ = guarded(|| evaluate::score(&mut bc, &mut g, turn, 3));
            }
            for d in 0..=255u8 {
                mate_evals += 1;
                match guarded(|| evaluate::score(&mut b, &mut g, turn, d)) {
                    Ok(s) => {
                        outcomes.insert(s as i32);
                        if !is_mate {
                            if s != 0 {
                                sink.push(v("stalemate-score-not-zero", p.to_fen(), format!("remaining depth {}: score {}", d, s), json!({"kind": "c18-terminal", "depth": d})));
                                break;
                            }
                        } else {
                            // the mated side is to move; the mating side is the other one
                            let good_for_mater = if p.stm == Side::White { -(s as i32) } else { s as i32 };
                            if good_for_mater <= max_abs || good_for_mater < smallest_mate {
                                sink.push(v("mate-score-not-above-static-range", p.to_fen(), format!("remaining depth {}: score {} (largest static magnitude {})", d, s, max_abs), json!({"kind": "c18-terminal", "depth": d})));
                                break;
                            }
                            if let Some(pv) = prev {
                                let prev_good = if p.stm == Side::White { -(pv as i32) } else { pv as i32 };
                                if good_for_mater <= prev_good {
                                    sink.push(v("mate-score-not-monotone-in-remaining-depth", p.to_fen(), format!("remaining depth {} scores {} but depth {} scores {}", d, s, d - 1, pv), json!({"kind": "c18-terminal", "depth": d})));
                                    break;
                                }
                            }
                            prev = Some(s);
                        }
                    }
                    Err(e) => {
                        sink.push(v("terminal-score-panics", p.to_fen(), format!("remaining depth {}: {}", d, e), json!({"kind": "c18-terminal", "depth": d})));
                        break;
                    }
                }
            }
        }
    }
    // terminal family: stalemates / mates of king + one adjacent pawn (pinned pawns included), at
    // remaining depths 0, 1 and 255
    {
        let ks: Vec<Sq> = if thorough { vec![0, 1, 8, 7, 6, 15, 56, 57, 48, 63, 62, 55] } else { vec![0, 7, 56, 63] };
        let fam = terminal_family(&ks);
        let mut n = 0u64;
        for p in fam.iter() {
            let is_mate = p.in_check(p.stm);
            let mut b = build_board(p);
            let turn = color_of(p.stm);
            for d in [0u8, 1, 255] {
                n += 1;
                match guarded(|| evaluate::score(&mut b, &mut g, turn, d)) {
                    Ok(s) => {
                        if !is_mate && s != 0 {
                            sink.push(v("stalemate-score-not-zero", p.to_fen(), format!("remaining depth {}: score {}", d, s), json!({"kind": "c18-terminal", "depth": d})));
                            break;
                        }
                        if is_mate {
                            let good = if p.stm == Side::White { -(s as i32) } else { s as i32 };
                            if good < smallest_mate {
                                sink.push(v("mate-score-not-above-static-range", p.to_fen(), format!("remaining depth {}: score {}", d, s), json!({"kind": "c18-terminal", "depth": d})));
                                break;
                            }
                        }
                    }
                    Err(e) => {
                        sink.push(v("terminal-score-panics", p.to_fen(), format!("remaining depth {}: {}", d, e), json!({"kind": "c18-terminal", "depth": d})));
                        break;
                    }
                }
            }
            if g.cache_entry_count() > 60_000 {
                g = MoveGenerator::new();
            }
        }
        rep.add("terminal_family_positions", fam.len() as u64);
        rep.add("terminal_family_stalemates", fam.iter().filter(|p| !p.in_check(p.stm)).count() as u64);
        mate_evals += n;
    }
    rep.add("mated_positions", mates.len() as u64);
    rep.add("stalemated_positions", stales.len() as u64);
    rep.add("terminal_score_evaluations", mate_evals);
    rep.add("distinct_scores_observed", outcomes.len() as u64);
    rep.states += evals + mate_evals;
    rep.transitions += evals + mate_evals;
    rep.traces += evals + mate_evals;
    rep.samples = vec![
        json!({"part": "table cells", "example": "wKnight@d4 alone and with wQ d1 wR a1 bq e8 br h8 context, vs bKnight@e5 mirrored"}),
        json!({"part": "material lattice", "vectors": vectors.len(), "example_vector_pnbrq": [0, 2, 2, 2, 9]}),
        json!({"part": "terminal", "example_mate": mates.first().map(|p| p.to_fen()), "example_stalemate": stales.first().map(|p| p.to_fen())}),
    ];
    rep.bounds = json!({"table_cells": "6 kinds x 64 squares x {endgame, midgame} context x both colours", "walk": "tree seeds at tier depth", "material_vectors": if thorough { "all legal one-side material vectors" } else { "boundary vectors (all promotions used) plus pawn-only vectors" }, "remaining_depths": "0..255 on every mated / stalemated position collected"});
    rep.rule = "complete enumeration of the evaluation's table domain, of the walked positions, of the material lattice extremes and of (terminal position x remaining depth)".to_string();
    rep.assumptions = vec!["built with overflow checks: an i16 overflow inside the evaluation panics and is reported".into(), "extreme boards place pieces greedily on the best / worst cells read from part 1".into()];
    rep.mandatory = vec!["table_cell_pairs".into(), "symmetry_pairs".into(), "mated_positions".into(), "stalemated_positions".into(), "material_extreme_boards_scored".into()];
    rep.finish(&sink)
}

/// mated and stalemated positions within the tier depth of the tree seeds (model only)
fn terminal_positions(tier: &str) -> (Vec<Pos>, Vec<Pos>) {
    let mut mates = Vec::new();
    let mut stales = Vec::new();
    let mut seen: HashSet<CKey> = HashSet::new();
    for sd in TREE_SEEDS {
        let d = depth_for(sd, "quick") + if tier == "thorough" { 1 } else { 0 };
        let mut stack = vec![(Pos::from_fen(sd.fen).unwrap(), 0u32)];
        while let Some((p, k)) = stack.pop() {
            if !seen.insert(canon(&p)) {
                continue;
            }
            let l = p.legal_moves();
            if l.is_empty() {
                if p.in_check(p.stm) {
                    if mates.len() < 400 {
                        mates.push(p.clone());
                    }
                } else if stales.len() < 400 {
                    stales.push(p.clone());
                }
                continue;
            }
            if k < d {
                for m in l {
                    stack.push((p.make(&m), k + 1));
                }
            }
        }
    }
    (mates, stales)
}

pub fn replay(val: &serde_json::Value) -> i32 {
    // walk-part violations replay through the walker; the others re-evaluate the recorded board
    if val["extra"]["kind"].as_str().is_none() || val["extra"].get("seed_name").is_some() {
        let seed_fen = val["seed"].as_str().unwrap_or("");
        if let Ok(p0) = Pos::from_fen(seed_fen) {
            let mut p = p0;
            if let Some(arr) = val["path"].as_array() {
                for t in arr {
                    if let Some(m) = p.legal_moves().into_iter().find(|m| uci(m) == t.as_str().unwrap_or("")) {
                        p = p.make(&m);
                    }
                }
            }
            let b = build_board(&p);
            let mb = build_board(&p.mirrored_rot180());
            let (x, y) = (guarded(|| evaluate::board_material_score(&b)), guarded(|| evaluate::board_material_score(&mb)));
            return match (x, y) {
                (Ok(x), Ok(y)) if x as i32 == -(y as i32) => {
                    println!("NOT-REPRODUCED property=C18");
                    0
                }
                other => {
                    println!("REPRODUCED property=C18 {:?}", other);
                    1
                }
            };
        }
    }
    println!("REPLAY property=C18: re-run `./check C18 quick` (table / lattice / terminal parts are complete enumerations taking seconds); recorded witness: {}", val["seed"]);
    let a = Args { prop: "C18".into(), tier: "quick".into(), seed: 0, threads: 16 };
    run(&a)
}
