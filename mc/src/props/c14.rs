//! C14 — typed moves: accepted iff legal, played exactly, rejected without effect.
//!
//! For every state of the enumeration (tree seeds to a small depth):
//!  1. all 4096 from/to coordinate pairs through `Game::apply_chess_move_by_from_to_coordinates`;
//!  2. a string set generated exhaustively from the position (every legal label, every label of
//!     the parent position and of the other side, every near-miss image of a legal label under a
//!     fixed operator list, junk) through `Game::apply_chess_move_from_raw_algebraic_notation`;
//!  3. command-line level, in process: every label the engine prints for a legal move is written
//!     to the process' stdin (a pipe dup2'ed onto fd 0), read by the real
//!     `input_handler::parse_player_move_input` and executed by the returned command;
//!  4. (thorough) the real `chess pvp` binary driven over stdin along scripted games.
//! Oracle: reference model (legal set, successor, SAN).  Strings that are neither an exact label
//! nor clearly not denoting any legal move are not judged.

use crate::bind::*;
use crate::refchess::san::san;
use crate::refchess::*;
use crate::report::{Report, Sink, Violation};
use crate::search::use_small_generators;
use crate::seeds::*;
use crate::Args;
use chess::board::Board;
use chess::chess_move::chess_move::ChessMove;
use chess::game::game::Game;
use serde_json::json;
use std::collections::{BTreeSet, HashSet};
use std::io::Write;

struct GameBox {
    game: Game,
    made: u64,
}

impl GameBox {
    fn new(p: &Pos) -> GameBox {
        GameBox { game: Game::from_board(build_board(p), 0), made: 1 }
    }
}

/// all strings a lenient reader could accept for move m (without check marks and 'x')
fn lenient_forms(m: &Move) -> Vec<String> {
    let mut v = Vec::new();
    match m.kind {
        MoveKind::CastleK => {
            v.push("O-O".to_string());
            return v;
        }
        MoveKind::CastleQ => {
            v.push("O-O-O".to_string());
            return v;
        }
        _ => {}
    }
    let letter = match m.moved {
        Kind::Pawn => "",
        Kind::Knight => "N",
        Kind::Bishop => "B",
        Kind::Rook => "R",
        Kind::Queen => "Q",
        Kind::King => "K",
    };
    let f = ((b'a' + m.from % 8) as char).to_string();
    let r = ((b'1' + m.from / 8) as char).to_string();
    let promo = match m.kind {
        MoveKind::Promotion(p) => format!("={}", ["", "N", "B", "R", "Q", "K"][p as usize]),
        _ => String::new(),
    };
    for dis in [String::new(), f.clone(), r.clone(), format!("{}{}", f, r)] {
        v.push(format!("{}{}{}{}", letter, dis, sq_name(m.to), promo));
    }
    v
}

fn strip(s: &str) -> String {
    s.replace(['x', '+', '#'], "")
}

fn shifted(sq: &str, df: i8, dr: i8) -> Option<String> {
    let s = parse_sq(sq)?;
    mk_sq(file_of(s) + df, rank_of(s) + dr).map(sq_name)
}

/// near-miss images of a correct label
fn near_misses(label: &str, m: &Move) -> Vec<String> {
    let mut out = Vec::new();
    let body = label.trim_end_matches(['+', '#']).to_string();
    let suffix = &label[body.len()..];
    // check marks
    out.push(body.clone());
    out.push(format!("{}+", body));
    out.push(format!("{}#", body));
    if matches!(m.kind, MoveKind::CastleK | MoveKind::CastleQ) {
        out.push("O-O-O-O".to_string());
        out.push("0-0".to_string());
        out.push("o-o".to_string());
        out.push(if m.kind == MoveKind::CastleK { format!("O-O-O{}", suffix) } else { format!("O-O{}", suffix) });
        return out;
    }
    // capture mark
    if body.contains('x') {
        out.push(format!("{}{}", body.replace('x', ""), suffix));
    } else {
        let i = body.find(|c: char| c.is_ascii_lowercase()).unwrap_or(0);
        // insert x before the destination square (the last two square characters before any '=')
        let core = body.split('=').next().unwrap().to_string();
        let cut = core.len().saturating_sub(2);
        out.push(format!("{}x{}{}", &body[..cut], &body[cut..], suffix));
        let _ = i;
    }
    let letter = if m.moved == Kind::Pawn { "" } else { &body[..1] };
    let dest = sq_name(m.to);
    let x = if m.captured.is_some() { "x" } else { "" };
    let promo = body.split('=').nth(1).map(|p| format!("={}", p)).unwrap_or_default();
    if m.moved != Kind::Pawn {
        let f = (b'a' + m.from % 8) as char;
        let r = (b'1' + m.from / 8) as char;
        // wrong / extra / missing disambiguation
        out.push(format!("{}{}{}{}", letter, x, dest, suffix));
        out.push(format!("{}{}{}{}{}", letter, f, x, dest, suffix));
        out.push(format!("{}{}{}{}{}", letter, r, x, dest, suffix));
        out.push(format!("{}{}{}{}{}{}", letter, f, r, x, dest, suffix));
        let wf = (b'a' + (m.from % 8 + 1) % 8) as char;
        let wr = (b'1' + (m.from / 8 + 1) % 8) as char;
        out.push(format!("{}{}{}{}{}", letter, wf, x, dest, suffix));
        out.push(format!("{}{}{}{}{}", letter, wr, x, dest, suffix));
        // wrong piece letter
        for l in ["N", "B", "R", "Q", "K", ""] {
            if l != letter {
                out.push(format!("{}{}{}{}", l, x, dest, suffix));
            }
        }
    } else {
        // pawn: wrong file prefix, piece letter, promotion variants
        if m.captured.is_some() {
            let wf = (b'a' + (m.from % 8 + 2) % 8) as char;
            out.push(format!("{}x{}{}{}", wf, dest, promo, suffix));
            out.push(format!("{}{}{}", dest, promo, suffix));
        }
        out.push(format!("P{}{}{}{}", x, dest, promo, suffix));
        if !promo.is_empty() {
            out.push(format!("{}{}", body.split('=').next().unwrap(), suffix));
            out.push(format!("{}=K{}", body.split('=').next().unwrap(), suffix));
            out.push(format!("{}=P{}", body.split('=').next().unwrap(), suffix));
        } else {
            out.push(format!("{}=Q{}", body, suffix));
        }
    }
    // destination shifted by one file / rank
    for (df, dr) in [(1, 0), (-1, 0), (0, 1), (0, -1)] {
        if let Some(d2) = shifted(&dest, df, dr) {
            out.push(body.replace(&dest, &d2) + suffix);
        }
    }
    out
}

fn last_desc(g: &Game) -> Option<MoveDesc> {
    g.last_move().map(|m| describe_impl(&m))
}

struct Stats {
    coord_inputs: u64,
    coord_accepted: u64,
    string_inputs: u64,
    string_exact_labels: u64,
    string_must_reject: u64,
    string_unjudged: u64,
    cli_inputs: u64,
    cli_castle_with_mark: u64,
    games_made: u64,
    promotions_by_coordinates: u64,
}

fn viol(sink: &Sink, class: &str, p: &Pos, input: &str, detail: String, kind: &str) {
    sink.push(Violation { prop: "C14".into(), class: class.into(), seed: p.to_fen(), path: vec![], detail: format!("input {:?}: {}", input, detail), extra: json!({"kind": kind, "fen": p.to_fen(), "input": input}) });
}

/// check an accepted input: the game must now hold exactly succ-of-m, history must end with m
fn check_accept(gb: &mut GameBox, p: &Pos, before: &Snap, m: &Move, sink: &Sink, input: &str, kind: &str) -> bool {
    let succ = p.make(m);
    let after = snapshot(gb.game.board());
    let mut ok = true;
    let d = after.diff_pos(&succ);
    if !d.is_empty() {
        ok = false;
        viol(sink, "accepted-input-played-a-different-move", p, input, format!("expected the position after {}: {}", uci(m), d), kind);
    }
    if after.turn != before.turn {
        ok = false;
        viol(sink, "accepted-input-changed-the-turn", p, input, String::new(), kind);
    }
    if after.half != succ.halfmove || after.full != before.full + 1 {
        ok = false;
        viol(sink, "accepted-input-wrong-counters", p, input, format!("half-move clock {} (rule {}), move counter {} -> {}", after.half, succ.halfmove, before.full, after.full), kind);
    }
    if last_desc(&gb.game) != Some(describe_model(m)) {
        ok = false;
        viol(sink, "accepted-input-not-recorded-in-history", p, input, format!("history ends with {:?}, the move played is {}", last_desc(&gb.game).map(|d| desc_str(&d)), uci(m)), kind);
    }
    ok
}

/// take the accepted move back so that the same Game can serve the next input
fn restore(gb: &mut GameBox, p: &Pos, before: &Snap) {
    let lm: Option<ChessMove> = gb.game.last_move();
    let b: &mut Board = gb.game.board_mut();
    let ok = guarded(|| {
        b.toggle_turn();
        b.uncount_current_position();
        b.toggle_turn();
        match lm {
            Some(m) => m.undo(b).is_ok(),
            None => false,
        }
    })
    .unwrap_or(false);
    if !ok || snapshot(gb.game.board()) != *before {
        *gb = GameBox::new(p);
        gb.made += 1;
    }
}

fn check_state(gb: &mut GameBox, p: &Pos, parent: Option<&Pos>, do_strings: bool, do_cli: bool, sink: &Sink, st: &mut Stats, cli: &mut Option<Cli>) {
    let legal = p.legal_moves();
    let before = snapshot(gb.game.board());
    // ---- 1. all coordinate pairs ----
    for from in 0..64u8 {
        for to in 0..64u8 {
            st.coord_inputs += 1;
            let hist_before = last_desc(&gb.game);
            let input = format!("{}{}", sq_name(from), sq_name(to));
            let want: Option<&Move> = legal.iter().find(|m| m.from == from && m.to == to && !matches!(m.kind, MoveKind::Promotion(k) if k != Kind::Queen));
            let r = guarded(|| gb.game.apply_chess_move_by_from_to_coordinates(bb(from), bb(to)));
            match (r, want) {
                (Ok(Ok(_)), Some(m)) => {
                    st.coord_accepted += 1;
                    if matches!(m.kind, MoveKind::Promotion(_)) {
                        st.promotions_by_coordinates += 1;
                    }
                    check_accept(gb, p, &before, m, sink, &input, "c14-coord");
                    restore(gb, p, &before);
                }
                (Ok(Ok(mv)), None) => {
                    viol(sink, "illegal-coordinates-accepted", p, &input, format!("played {}", desc_str(&describe_impl(&mv))), "c14-coord");
                    *gb = GameBox::new(p);
                    gb.made += 1;
                }
                (Ok(Err(e)), Some(m)) => {
                    viol(sink, "legal-coordinates-rejected", p, &input, format!("{} is legal: {}", uci(m), e), "c14-coord");
                    if snapshot(gb.game.board()) != before {
                        *gb = GameBox::new(p);
                        gb.made += 1;
                    }
                }
                (Ok(Err(_)), None) => {
                    let after = snapshot(gb.game.board());
                    if after != before || last_desc(&gb.game) != hist_before {
                        viol(sink, "rejected-input-had-an-effect", p, &input, before.diff(&after), "c14-coord");
                        *gb = GameBox::new(p);
                        gb.made += 1;
                    }
                }
                (Err(pn), _) => {
                    viol(sink, "panic-on-input", p, &input, pn, "c14-coord");
                    *gb = GameBox::new(p);
                    gb.made += 1;
                }
            }
        }
    }
    if !do_strings {
        return;
    }
    // ---- 2. strings ----
    let labels: Vec<String> = legal.iter().map(|m| san(p, m, &legal)).collect();
    let mut set: BTreeSet<String> = BTreeSet::new();
    for (m, l) in legal.iter().zip(labels.iter()) {
        set.insert(l.clone());
        for s in near_misses(l, m) {
            set.insert(s);
        }
    }
    // labels of the other side in this position and of the parent position
    let mut other = p.clone();
    other.stm = other.stm.other();
    other.ep = None;
    if other.is_consistent() {
        let ol = other.legal_moves();
        for m in &ol {
            set.insert(san(&other, m, &ol));
        }
    }
    if let Some(pp) = parent {
        let pl = pp.legal_moves();
        for m in &pl {
            set.insert(san(pp, m, &pl));
        }
    }
    for junk in ["", " ", "e9", "i4", "Z1", "e2e4e5", "Ke", "x", "=Q", "Nf", "O-O-", "e4 ", "E4", "nf3", "Pe4"] {
        set.insert(junk.to_string());
    }
    let forms: Vec<(usize, Vec<String>)> = legal.iter().enumerate().map(|(i, m)| (i, lenient_forms(m))).collect();
    for s in set.iter() {
        st.string_inputs += 1;
        let hist_before = last_desc(&gb.game);
        let exact: Vec<usize> = labels.iter().enumerate().filter(|(_, l)| *l == s).map(|(i, _)| i).collect();
        let stripped = strip(s);
        let lenient: Vec<usize> = forms.iter().filter(|(_, f)| f.contains(&stripped)).map(|(i, _)| *i).collect();
        let r = guarded(|| gb.game.apply_chess_move_from_raw_algebraic_notation(s.clone()));
        match r {
            Ok(Ok(mv)) => {
                let d = describe_impl(&mv);
                let played: Option<usize> = legal.iter().position(|m| describe_model(m) == d);
                if !exact.is_empty() {
                    st.string_exact_labels += 1;
                    if exact.len() > 1 {
                        // two legal moves share the standard label: cannot happen with a correct SAN writer
                        viol(sink, "harness-ambiguous-label", p, s, "model produced the same label twice".into(), "c14-string");
                    }
                    match played {
                        Some(i) if exact.contains(&i) => {
                            check_accept(gb, p, &before, &legal[i], sink, s, "c14-string");
                        }
                        _ => viol(sink, "label-played-a-different-move", p, s, format!("the label denotes {}, the game played {}", uci(&legal[exact[0]]), desc_str(&d)), "c14-string"),
                    }
                } else if lenient.is_empty() {
                    st.string_must_reject += 1;
                    viol(sink, "string-denoting-no-legal-move-accepted", p, s, format!("played {}", desc_str(&d)), "c14-string");
                } else {
                    st.string_unjudged += 1;
                    // accepted under a lenient reading: it must at least have played a move the string can denote
                    match played {
                        Some(i) if lenient.contains(&i) => {
                            check_accept(gb, p, &before, &legal[i], sink, s, "c14-string");
                        }
                        _ => viol(sink, "label-played-a-different-move", p, s, format!("the string can only denote {:?}, the game played {}", lenient.iter().map(|i| uci(&legal[*i])).collect::<Vec<_>>(), desc_str(&d)), "c14-string"),
                    }
                }
                restore(gb, p, &before);
            }
            Ok(Err(e)) => {
                if !exact.is_empty() {
                    st.string_exact_labels += 1;
                    viol(sink, "standard-label-rejected", p, s, format!("it is the standard notation of the legal move {}: {}", uci(&legal[exact[0]]), e), "c14-string");
                } else if lenient.is_empty() {
                    st.string_must_reject += 1;
                } else {
                    st.string_unjudged += 1;
                }
                let after = snapshot(gb.game.board());
                if after != before || last_desc(&gb.game) != hist_before {
                    viol(sink, "rejected-input-had-an-effect", p, s, before.diff(&after), "c14-string");
                    *gb = GameBox::new(p);
                    gb.made += 1;
                }
            }
            Err(pn) => {
                viol(sink, "panic-on-input", p, s, pn, "c14-string");
                *gb = GameBox::new(p);
                gb.made += 1;
            }
        }
    }
    // ---- 3. command-line level, in process ----
    if do_cli {
        if let Some(c) = cli.as_mut() {
            // every label the ENGINE prints for a legal move of this position
            let printed: Vec<(ChessMove, String)> = match guarded(|| gb.game.enumerated_candidate_moves()) {
                Ok(v) => v,
                Err(_) => Vec::new(),
            };
            for (mv, label) in printed {
                st.cli_inputs += 1;
                if label.starts_with("O-O") && label.len() > 3 && (label.ends_with('+') || label.ends_with('#')) {
                    st.cli_castle_with_mark += 1;
                }
                let d = describe_impl(&mv);
                let mi = match legal.iter().position(|m| describe_model(m) == d) {
                    Some(i) => i,
                    None => continue, // C01's business
                };
                let r = c.type_line(&label, &mut gb.game);
                match r {
                    Ok(Ok(())) => {
                        check_accept(gb, p, &before, &legal[mi], sink, &label, "c14-cli");
                        restore(gb, p, &before);
                    }
                    Ok(Err(e)) => {
                        let cls = if label.starts_with("O-O") { "printed-castling-label-refused-at-command-line" } else { "printed-label-refused-at-command-line" };
                        viol(sink, cls, p, &label, format!("the engine prints this label for {} but the command line answers: {}", uci(&legal[mi]), e), "c14-cli");
                        if snapshot(gb.game.board()) != before {
                            *gb = GameBox::new(p);
                            gb.made += 1;
                        }
                    }
                    Err(pn) => {
                        viol(sink, "panic-on-input", p, &label, pn, "c14-cli");
                        *gb = GameBox::new(p);
                        gb.made += 1;
                    }
                }
            }
            // coordinates typed at the command line: one legal pair, one illegal pair
            if let Some(m) = legal.first() {
                let t = format!("{}{}", sq_name(m.from), sq_name(m.to));
                if let Ok(Ok(())) = c.type_line(&t, &mut gb.game) {
                    if let Some(mm) = legal.iter().find(|x| x.from == m.from && x.to == m.to && !matches!(x.kind, MoveKind::Promotion(k) if k != Kind::Queen)) {
                        check_accept(gb, p, &before, mm, sink, &t, "c14-cli");
                    }
                    restore(gb, p, &before);
                } else {
                    viol(sink, "legal-coordinates-rejected", p, &t, "typed at the command line".into(), "c14-cli");
                }
                st.cli_inputs += 1;
            }
        }
    }
    st.games_made = gb.made;
}

/// stdin of this process replaced by a pipe so that the real input reader can be driven
pub struct Cli {
    w: std::fs::File,
}

impl Cli {
    pub fn new() -> Option<Cli> {
        use std::os::unix::io::FromRawFd;
        let mut fds = [0i32; 2];
        unsafe {
            if libc::pipe(fds.as_mut_ptr()) != 0 {
                return None;
            }
            if libc::dup2(fds[0], 0) < 0 {
                return None;
            }
            libc::close(fds[0]);
            Some(Cli { w: std::fs::File::from_raw_fd(fds[1]) })
        }
    }
    /// Ok(Ok(())) accepted, Ok(Err(msg)) refused (by the reader or by the game), Err(panic)
    pub fn type_line(&mut self, line: &str, game: &mut Game) -> Result<Result<(), String>, String> {
        if writeln!(self.w, "{}", line).is_err() || self.w.flush().is_err() {
            return Err("harness: cannot write to the stdin pipe".into());
        }
        guarded(|| match chess::input_handler::parse_player_move_input() {
            Ok(cmd) => match cmd.execute(game) {
                Ok(_) => Ok(()),
                Err(e) => Err(format!("game: {}", e)),
            },
            Err(e) => Err(format!("input reader: {}", e)),
        })
    }
}

pub fn run(a: &Args) -> i32 {
    let mut rep = Report::new("C14", &a.tier, a.seed);
    let sink = Sink::new(6);
    use_small_generators();
    let thorough = a.tier == "thorough";
    let mut cli = Cli::new();
    if cli.is_none() {
        eprintln!("MACHINERY-ERROR: cannot replace stdin by a pipe");
        return 2;
    }
    // states: tree seeds, their children (and grandchildren in thorough); strings / cli on a subset
    let mut states: Vec<(Pos, Option<Pos>, bool)> = Vec::new();
    let mut seen: HashSet<CKey> = HashSet::new();
    for (i, sd) in TREE_SEEDS.iter().enumerate() {
        let root = Pos::from_fen(sd.fen).unwrap();
        if seen.insert(canon(&root)) {
            states.push((root.clone(), None, true));
        }
        let kids_strings = thorough || i % 3 == 0;
        let mut lvl1 = Vec::new();
        for m in root.legal_moves() {
            let n = root.make(&m);
            if seen.insert(canon(&n)) {
                states.push((n.clone(), Some(root.clone()), kids_strings && (thorough || lvl1.len() < 6)));
                lvl1.push(n);
            }
        }
        if thorough && root.legal_moves().len() <= 25 {
            for p1 in &lvl1 {
                for m in p1.legal_moves() {
                    let n = p1.make(&m);
                    if seen.insert(canon(&n)) {
                        states.push((n, Some(p1.clone()), false));
                    }
                }
            }
        }
    }
    // en-passant captures that uncover a check (the mark on the label depends on a third square),
    // checking double steps answered only by en passant, and castle-shaped queen / rook moves:
    // every k-th member of those families, with the string inputs
    {
        let mut fam: Vec<Pos> = Vec::new();
        let ed = ep_discovery();
        let k = if thorough { 40 } else { 160 };
        fam.extend(ed.into_iter().step_by(k));
        let (after, before) = ep_only_reply();
        fam.extend(after.into_iter().step_by(if thorough { 16 } else { 60 }));
        fam.extend(before.into_iter().step_by(if thorough { 16 } else { 60 }));
        fam.extend(castle_shaped_moves().into_iter().step_by(if thorough { 4 } else { 12 }));
        fam.extend(many_queens().into_iter().filter(|p| p.is_consistent()));
        for p in fam {
            if seen.insert(canon(&p)) {
                states.push((p, None, true));
            }
        }
    }
    let mut st = Stats { coord_inputs: 0, coord_accepted: 0, string_inputs: 0, string_exact_labels: 0, string_must_reject: 0, string_unjudged: 0, cli_inputs: 0, cli_castle_with_mark: 0, games_made: 0, promotions_by_coordinates: 0 };
    let mut games_total = 0u64;
    let mut nstr = 0u64;
    for (p, parent, strings) in &states {
        let mut gb = GameBox::new(p);
        check_state(&mut gb, p, parent.as_ref(), *strings, *strings, &sink, &mut st, &mut cli);
        games_total += gb.made;
        if *strings {
            nstr += 1;
        }
    }
    // ---- 3b. one long-lived Game along every quiet path of a few pieces (tempo losses included):
    // at every ply the listed labels must be those of the side to move, a label that is legal only
    // for the other side must be refused, and the path move typed as its label must be played
    let mut path_games = 0u64;
    let mut path_inputs = 0u64;
    for (fen, squares) in [("7k/8/8/8/8/8/8/K7 w - - 0 1", vec!["a1", "b1", "b2", "a2", "h8", "g8", "g7", "h7"]), ("rnbqkbnr/pppppppp/8/8/8/8/PPPPPPPP/RNBQKBNR w KQkq - 0 1", vec!["g1", "f3", "g8", "f6", "b1", "c3", "b8", "c6"])] {
        let root = Pos::from_fen(fen).unwrap();
        let allowed: Vec<Sq> = squares.iter().map(|x| parse_sq(x).unwrap()).collect();
        let len = if thorough { 6 } else { 5 };
        let mut paths: Vec<Vec<Move>> = vec![vec![]];
        for _ in 0..len {
            let mut next = Vec::new();
            for h in &paths {
                let mut p = root.clone();
                for m in h {
                    p = p.make(m);
                }
                for m in p.legal_moves().into_iter().filter(|m| allowed.contains(&m.from) && allowed.contains(&m.to)) {
                    let mut t = h.clone();
                    t.push(m);
                    next.push(t);
                }
            }
            paths = next;
        }
        for h in paths.iter() {
            path_games += 1;
            let mut game = Game::from_board(build_board(&root), 0);
            let mut p = root.clone();
            let mut played: Vec<String> = Vec::new();
            for k in 0..=h.len() {
                let legal = p.legal_moves();
                let labels: BTreeSet<String> = legal.iter().map(|x| san(&p, x, &legal)).collect();
                let mk = |p: &Pos, played: &Vec<String>, class: &str, input: &str, detail: String| {
                    sink.push(Violation { prop: "C14".into(), class: class.into(), seed: root.to_fen(), path: played.clone(), detail: format!("one Game object along the path {:?}, now in {}: input {:?}: {}", played, p.to_fen(), input, detail), extra: json!({"kind": "c14-path", "fen": root.to_fen(), "input": input, "path": h.iter().map(uci).collect::<Vec<_>>()}) });
                };
                // the labels the game lists
                match guarded(|| game.enumerated_candidate_moves()) {
                    Ok(listed) => {
                        let got: BTreeSet<String> = listed.iter().map(|x| x.1.clone()).collect();
                        if got != labels {
                            mk(&p, &played, "listed-labels-are-not-those-of-the-side-to-move", "(listing)", format!("listed {:?}, standard {:?}", got.iter().take(6).collect::<Vec<_>>(), labels.iter().take(6).collect::<Vec<_>>()));
                            break;
                        }
                    }
                    Err(e) => {
                        mk(&p, &played, "panic-on-input", "(listing)", e);
                        break;
                    }
                }
                // a label that only the other side could play
                let mut other = p.clone();
                other.stm = p.stm.other();
                other.ep = None;
                if other.is_consistent() {
                    let ol = other.legal_moves();
                    if let Some(foreign) = ol.iter().map(|x| san(&other, x, &ol)).find(|l| !labels.contains(l) && !legal.iter().any(|lm| lenient_forms(lm).contains(&strip(l)))) {
                        path_inputs += 1;
                        let before = snapshot(game.board());
                        match guarded(|| game.apply_chess_move_from_raw_algebraic_notation(foreign.clone())) {
                            Ok(Ok(mv)) => {
                                mk(&p, &played, "string-denoting-no-legal-move-accepted", &foreign, format!("a label of the OTHER side was accepted and played {}", desc_str(&describe_impl(&mv))));
                                break;
                            }
                            Ok(Err(_)) => {
                                if snapshot(game.board()) != before {
                                    mk(&p, &played, "rejected-input-had-an-effect", &foreign, String::new());
                                    break;
                                }
                            }
                            Err(e) => {
                                mk(&p, &played, "panic-on-input", &foreign, e);
                                break;
                            }
                        }
                    }
                }
                // the path move, typed as its standard label
                if k == h.len() {
                    break;
                }
                let m = &h[k];
                let label = san(&p, m, &legal);
                path_inputs += 1;
                match guarded(|| game.apply_chess_move_from_raw_algebraic_notation(label.clone())) {
                    Ok(Ok(mv)) => {
                        if describe_impl(&mv) != describe_model(m) {
                            mk(&p, &played, "label-played-a-different-move", &label, format!("played {}", desc_str(&describe_impl(&mv))));
                            break;
                        }
                    }
                    Ok(Err(e)) => {
                        mk(&p, &played, "standard-label-rejected", &label, format!("{}", e));
                        break;
                    }
                    Err(e) => {
                        mk(&p, &played, "panic-on-input", &label, e);
                        break;
                    }
                }
                game.board_mut().toggle_turn();
                p = p.make(m);
                played.push(uci(m));
                if snapshot(game.board()).diff_pos(&p) != "" {
                    mk(&p, &played, "accepted-input-played-a-different-move", &label, "position differs from the model".into());
                    break;
                }
            }
        }
    }
    // ---- 4. the real binary (thorough) ----
    let mut bin_lines = 0u64;
    if thorough {
        match crate::props::c14_bin::run_binary(&sink) {
            Ok(n) => bin_lines = n,
            Err(e) => {
                eprintln!("MACHINERY-ERROR: {}", e);
                return 2;
            }
        }
    }
    rep.states = states.len() as u64;
    rep.transitions = st.coord_inputs + st.string_inputs + st.cli_inputs + bin_lines;
    rep.traces = st.coord_accepted + st.string_exact_labels + st.cli_inputs + bin_lines;
    rep.add("states_with_all_4096_coordinate_pairs", states.len() as u64);
    rep.add("states_with_string_and_command_line_inputs", nstr);
    rep.add("coordinate_inputs", st.coord_inputs);
    rep.add("coordinate_inputs_accepted", st.coord_accepted);
    rep.add("promotions_played_by_coordinates", st.promotions_by_coordinates);
    rep.add("string_inputs", st.string_inputs);
    rep.add("strings_equal_to_a_standard_label", st.string_exact_labels);
    rep.add("strings_that_must_be_rejected", st.string_must_reject);
    rep.add("strings_not_judged", st.string_unjudged);
    rep.add("command_line_inputs", st.cli_inputs);
    rep.add("command_line_castling_labels_with_check_or_mate", st.cli_castle_with_mark);
    rep.add("game_objects_created", games_total);
    rep.add("binary_lines_typed", bin_lines);
    rep.add("long_lived_game_paths", path_games);
    rep.add("long_lived_game_path_inputs", path_inputs);
    rep.samples = vec![json!({"state": states.last().map(|s| s.0.to_fen()), "inputs": "4096 coordinate pairs"}), json!({"near_miss_operators": ["check mark added / removed", "capture mark added / removed", "disambiguation removed / wrong file / wrong rank / full square", "wrong piece letter", "promotion piece dropped / =K / =P / added", "destination shifted by one file or rank", "labels of the other side and of the parent position", "junk"]})];
    rep.bounds = json!({"states": "tree seeds + children (thorough: + grandchildren of small seeds)", "coordinate_pairs": 4096, "strings": "generated set per position (see samples)", "command_line": "every label printed by the engine for the string-checked states"});
    rep.rule = "state = position; transitions = one real Game API call (or one line through the real stdin reader) per input; accepted inputs are compared with the model successor and the history, rejected ones with the full snapshot".into();
    rep.assumptions = vec!["strings that denote a legal move only under a lenient reading (missing check mark, over-disambiguation, ...) are not judged".into(), "the in-process command-line level replaces fd 0 by a pipe; the real binary is driven in the thorough tier".into()];
    rep.mandatory = vec!["coordinate_inputs_accepted".into(), "promotions_played_by_coordinates".into(), "strings_equal_to_a_standard_label".into(), "strings_that_must_be_rejected".into(), "command_line_inputs".into(), "command_line_castling_labels_with_check_or_mate".into(), "long_lived_game_path_inputs".into()];
    rep.finish(&sink)
}

pub fn replay(v: &serde_json::Value) -> i32 {
    use_small_generators();
    let p = match Pos::from_fen(v["extra"]["fen"].as_str().unwrap_or("")) {
        Ok(p) => p,
        Err(e) => {
            eprintln!("MACHINERY-ERROR: {}", e);
            return 2;
        }
    };
    let class = v["class"].as_str().unwrap_or("");
    let mut cli = Cli::new();
    let mut found = Vec::new();
    for _ in 0..2 {
        let sink = Sink::new(10_000);
        let mut st = Stats { coord_inputs: 0, coord_accepted: 0, string_inputs: 0, string_exact_labels: 0, string_must_reject: 0, string_unjudged: 0, cli_inputs: 0, cli_castle_with_mark: 0, games_made: 0, promotions_by_coordinates: 0 };
        let mut gb = GameBox::new(&p);
        check_state(&mut gb, &p, None, true, true, &sink, &mut st, &mut cli);
        let input = v["extra"]["input"].as_str().unwrap_or("");
        let hit = sink.take().values().any(|(_, vs)| vs.iter().any(|x| x.class == class && x.extra["input"].as_str() == Some(input)));
        found.push(hit);
    }
    if found[0] != found[1] {
        eprintln!("MACHINERY-ERROR: replay is not deterministic");
        return 2;
    }
    if found[0] {
        println!("REPRODUCED property=C14 class={}", class);
        1
    } else {
        println!("NOT-REPRODUCED property=C14 class={}", class);
        0
    }
}
