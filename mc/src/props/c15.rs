//! C15 — the engine always produces a legal move; every opening-book line is legal.
//!
//! Enumerated completely: every node of the compiled book trie (walked from the root through
//! `Book::get_next_moves`), every edge checked for legality against the model position reached
//! by the prefix from the standard start.  At every node a `Game` that actually played the
//! prefix is asked for its move once per possible book choice (choice seam), at every
//! one-move departure from shallow nodes (and a fixed number at deeper ones) once, and for
//! supplied positions (`Game::from_board`) with an empty history and with book-prefix
//! histories that are legal on the foreign board.

use crate::bind::*;
use crate::refchess::*;
use crate::report::{Report, Sink, Violation};
use crate::search::use_small_generators;
use crate::seeds::*;
use crate::Args;
use chess::book::{Book, BookMove};
use chess::game::game::Game;
use serde_json::json;
use std::collections::HashSet;

struct Node {
    prefix: Vec<(Sq, Sq)>,
    pos: Pos,
    next: Vec<(Sq, Sq, Option<String>)>,
}

fn text(prefix: &[(Sq, Sq)]) -> Vec<String> {
    prefix.iter().map(|(f, t)| format!("{}{}", sq_name(*f), sq_name(*t))).collect()
}

fn to_line(prefix: &[(Sq, Sq)]) -> Vec<BookMove> {
    prefix.iter().map(|(f, t)| BookMove::new(bb(*f), bb(*t))).collect()
}

/// Play `prefix` on a new game from `root` (None = standard start through Game::new).
/// Returns None if some move of the prefix is refused.
fn game_after(root: Option<&Pos>, prefix: &[(Sq, Sq)], depth: u8) -> Option<Game> {
    let mut g = match root {
        None => Game::new(depth),
        Some(p) => Game::from_board(build_board(p), depth),
    };
    for (f, t) in prefix {
        match guarded(|| g.apply_chess_move_by_from_to_coordinates(bb(*f), bb(*t))) {
            Ok(Ok(_)) => {}
            _ => return None,
        }
        g.board_mut().toggle_turn();
    }
    Some(g)
}

fn ask(g: &mut Game) -> Result<MoveDesc, String> {
    match guarded(|| g.select_waterfall_book_then_alpha_beta_best_move()) {
        Ok(Ok(m)) => Ok(describe_impl(&m)),
        Ok(Err(e)) => Err(format!("error: {}", e)),
        Err(p) => Err(format!("panic: {}", p)),
    }
}

pub fn run(a: &Args) -> i32 {
    let mut rep = Report::new("C15", &a.tier, a.seed);
    let sink = Sink::new(6);
    use_small_generators();
    let thorough = a.tier == "thorough";
    let book = Book::default();
    let start = Pos::startpos();

    // ---- walk the trie ----
    let mut nodes: Vec<Node> = Vec::new();
    let mut stack: Vec<(Vec<(Sq, Sq)>, Option<Pos>)> = vec![(vec![], Some(start.clone()))];
    let mut illegal_edges = 0u64;
    let mut edges = 0u64;
    let mut named = 0u64;
    while let Some((prefix, pos)) = stack.pop() {
        let mut next: Vec<(Sq, Sq, Option<String>)> = book.get_next_moves(to_line(&prefix)).into_iter().map(|(m, n)| (sq_of(m.from_square()), sq_of(m.to_square()), n)).collect();
        next.sort();
        for (f, t, name) in &next {
            edges += 1;
            if name.is_some() {
                named += 1;
            }
            let mut np = prefix.clone();
            np.push((*f, *t));
            let succ = pos.as_ref().and_then(|p| p.legal_moves().into_iter().find(|m| m.from == *f && m.to == *t).map(|m| p.make(&m)));
            if succ.is_none() && pos.is_some() {
                illegal_edges += 1;
                let p = pos.as_ref().unwrap();
                sink.push(Violation {
                    prop: "C15".into(),
                    class: "book-line-illegal".into(),
                    seed: start.to_fen(),
                    path: text(&np),
                    detail: format!("book move {}{} (line {:?}) is not legal after {:?}: position {}", sq_name(*f), sq_name(*t), name, text(&prefix), p.to_fen()),
                    extra: json!({"kind": "c15-book", "prefix": text(&prefix), "move": format!("{}{}", sq_name(*f), sq_name(*t))}),
                });
            }
            stack.push((np, succ));
        }
        if let Some(p) = pos {
            nodes.push(Node { prefix, pos: p, next });
        }
    }
    rep.add("book_nodes_reachable_by_legal_play", nodes.len() as u64);
    rep.add("book_edges", edges);
    rep.add("book_edges_carrying_a_line_name", named);
    rep.add("illegal_book_edges", illegal_edges);

    // ---- ask the engine at every node, once per book choice ----
    let mut asks = 0u64;
    let mut book_answers = 0u64;
    let mut search_answers = 0u64;
    let mut outcomes: HashSet<MoveDesc> = HashSet::new();
    let depths: Vec<u8> = if thorough { vec![1, 2] } else { vec![1] };
    for n in &nodes {
        let legal = n.pos.legal_moves();
        if legal.is_empty() {
            continue;
        }
        for &d in &depths {
            let choices = n.next.len().max(1);
            for c in 0..choices {
                let mut g = match game_after(None, &n.prefix, d) {
                    Some(g) => g,
                    None => {
                        sink.push(Violation { prop: "C15".into(), class: "game-refuses-legal-book-history".into(), seed: start.to_fen(), path: text(&n.prefix), detail: "a legal history could not be played through the Game API".into(), extra: json!({"kind": "c15-node", "prefix": text(&n.prefix), "depth": d, "choice": c}) });
                        break;
                    }
                };
                chess::verif_hooks::set_book_choice(Some(c));
                let r = ask(&mut g);
                chess::verif_hooks::set_book_choice(None);
                asks += 1;
                match r {
                    Ok(m) if legal.iter().any(|x| x.from == m.from && x.to == m.to && describe_model(x) == m) => {
                        outcomes.insert(m);
                        if n.next.iter().any(|(f, t, _)| *f == m.from && *t == m.to) {
                            book_answers += 1;
                        } else {
                            search_answers += 1;
                        }
                    }
                    Ok(m) => sink.push(Violation { prop: "C15".into(), class: "engine-move-illegal".into(), seed: start.to_fen(), path: text(&n.prefix), detail: format!("engine proposes {} which is not legal in {}", desc_str(&m), n.pos.to_fen()), extra: json!({"kind": "c15-node", "prefix": text(&n.prefix), "depth": d, "choice": c}) }),
                    Err(e) => {
                        let in_book = !n.next.is_empty();
                        sink.push(Violation {
                            prop: "C15".into(),
                            class: if in_book { "no-move-at-book-node".into() } else { "no-move-off-book".into() },
                            seed: start.to_fen(),
                            path: text(&n.prefix),
                            detail: format!("after {:?} (book choice {} of {:?}) the engine answers `{}` although {} legal moves exist; position {}", text(&n.prefix), c, n.next.iter().map(|(f, t, _)| format!("{}{}", sq_name(*f), sq_name(*t))).collect::<Vec<_>>(), e, legal.len(), n.pos.to_fen()),
                            extra: json!({"kind": "c15-node", "prefix": text(&n.prefix), "depth": d, "choice": c}),
                        })
                    }
                }
            }
        }
    }
    rep.add("engine_asked_at_book_nodes", asks);

    // ---- one-move departures ----
    let mut dep = 0u64;
    for n in &nodes {
        let legal = n.pos.legal_moves();
        let offbook: Vec<&Move> = legal.iter().filter(|m| !n.next.iter().any(|(f, t, _)| *f == m.from && *t == m.to)).collect();
        let take = if n.prefix.len() <= 1 || thorough { offbook.len() } else { 2 };
        for m in offbook.into_iter().take(take) {
            let mut h = n.prefix.clone();
            h.push((m.from, m.to));
            let succ = n.pos.make(m);
            let sl = succ.legal_moves();
            if sl.is_empty() {
                continue;
            }
            let mut g = match game_after(None, &h, 1) {
                Some(g) => g,
                None => continue,
            };
            dep += 1;
            match ask(&mut g) {
                Ok(r) if sl.iter().any(|x| describe_model(x) == r) => {
                    search_answers += 1;
                    outcomes.insert(r);
                }
                Ok(r) => sink.push(Violation { prop: "C15".into(), class: "engine-move-illegal".into(), seed: start.to_fen(), path: text(&h), detail: format!("engine proposes {} which is not legal in {}", desc_str(&r), succ.to_fen()), extra: json!({"kind": "c15-node", "prefix": text(&h), "depth": 1, "choice": 0}) }),
                Err(e) => sink.push(Violation { prop: "C15".into(), class: "no-move-off-book".into(), seed: start.to_fen(), path: text(&h), detail: format!("after leaving the book with {:?} the engine answers `{}`; position {}", text(&h), e, succ.to_fen()), extra: json!({"kind": "c15-node", "prefix": text(&h), "depth": 1, "choice": 0}) }),
            }
        }
    }
    rep.add("one_move_departures_asked", dep);

    // ---- supplied positions ----
    let mut supplied: Vec<(String, Pos)> = Vec::new();
    for sd in TREE_SEEDS {
        supplied.push((sd.name.to_string(), Pos::from_fen(sd.fen).unwrap()));
    }
    let mut seen: HashSet<CKey> = HashSet::new();
    for m1 in start.legal_moves() {
        let p1 = start.make(&m1);
        if seen.insert(canon(&p1)) {
            supplied.push((format!("start+{}", uci(&m1)), p1.clone()));
        }
        if thorough {
            for m2 in p1.legal_moves() {
                let p2 = p1.make(&m2);
                if seen.insert(canon(&p2)) {
                    supplied.push((format!("start+{}+{}", uci(&m1), uci(&m2)), p2));
                }
            }
        }
    }
    let root_edges: Vec<(Sq, Sq)> = nodes.iter().find(|n| n.prefix.is_empty()).map(|n| n.next.iter().map(|(f, t, _)| (*f, *t)).collect()).unwrap_or_default();
    let mut sup_asks = 0u64;
    for (name, p) in &supplied {
        let legal = p.legal_moves();
        if legal.is_empty() {
            continue;
        }
        // histories: empty, and every book prefix of length 1..2 that happens to be legal on this board
        let mut hists: Vec<Vec<(Sq, Sq)>> = vec![vec![]];
        for n in nodes.iter().filter(|n| !n.prefix.is_empty() && n.prefix.len() <= 2) {
            // is the book prefix playable on this foreign board?
            let mut q = p.clone();
            let mut ok = true;
            for (f, t) in &n.prefix {
                match q.legal_moves().into_iter().find(|m| m.from == *f && m.to == *t) {
                    Some(m) => q = q.make(&m),
                    None => {
                        ok = false;
                        break;
                    }
                }
            }
            if ok {
                hists.push(n.prefix.clone());
            }
        }
        for h in hists {
            let mut q = p.clone();
            for (f, t) in &h {
                let m = q.legal_moves().into_iter().find(|m| m.from == *f && m.to == *t).unwrap();
                q = q.make(&m);
            }
            let ql = q.legal_moves();
            if ql.is_empty() {
                continue;
            }
            let nchoices = if h.is_empty() { root_edges.len().max(1) } else { book.get_next_moves(to_line(&h)).len().max(1) };
            for c in 0..nchoices {
                let mut g = match game_after(Some(p), &h, 1) {
                    Some(g) => g,
                    None => {
                        sink.push(Violation { prop: "C15".into(), class: "game-refuses-legal-history".into(), seed: p.to_fen(), path: text(&h), detail: format!("supplied position {}", name), extra: json!({"kind": "c15-supplied", "fen": p.to_fen(), "history": text(&h), "choice": c}) });
                        break;
                    }
                };
                chess::verif_hooks::set_book_choice(Some(c));
                let r = ask(&mut g);
                chess::verif_hooks::set_book_choice(None);
                sup_asks += 1;
                match r {
                    Ok(m) if ql.iter().any(|x| describe_model(x) == m) => {
                        outcomes.insert(m);
                    }
                    Ok(m) => sink.push(Violation { prop: "C15".into(), class: "engine-move-illegal".into(), seed: p.to_fen(), path: text(&h), detail: format!("supplied position {}: engine proposes {} which is not legal in {}", name, desc_str(&m), q.to_fen()), extra: json!({"kind": "c15-supplied", "fen": p.to_fen(), "history": text(&h), "choice": c}) }),
                    Err(e) => sink.push(Violation {
                        prop: "C15".into(),
                        class: "no-move-for-supplied-position".into(),
                        seed: p.to_fen(),
                        path: text(&h),
                        detail: format!("supplied position {} with history {:?} (book choice {}): the engine answers `{}` although {} legal moves exist in {}", name, text(&h), c, e, ql.len(), q.to_fen()),
                        extra: json!({"kind": "c15-supplied", "fen": p.to_fen(), "history": text(&h), "choice": c}),
                    }),
                }
            }
        }
    }
    // ---- one long-lived Game asked for its move at every ply of every quiet king path ----
    let mut path_asks = 0u64;
    let mut asks_after_a_recurrence = 0u64;
    // second configuration: a caged king (at h1 its ONLY legal move is Kg1; all pawns are blocked)
    // two pawns up, so that along the paths the engine is asked in positions where its single
    // legal move leads to a position that has already occurred twice
    for (fen, squares, len, step) in [
        ("7k/8/8/8/8/8/8/K7 w - - 0 1", vec!["a1", "b1", "b2", "a2", "h8", "g8", "g7", "h7"], if thorough { 6 } else { 5 }, if thorough { 1 } else { 2 }),
        ("k7/8/8/p7/P7/P6p/P6P/7K w - - 0 1", vec!["h1", "g1", "f1", "a8", "b8"], if thorough { 10 } else { 8 }, 1),
    ] {
        let root = Pos::from_fen(fen).unwrap();
        if !root.is_consistent() {
            eprintln!("MACHINERY-ERROR: inconsistent C15 path seed");
            return 2;
        }
        let allowed: Vec<Sq> = squares.iter().map(|x| parse_sq(x).unwrap()).collect();
        let mut paths: Vec<Vec<Move>> = vec![vec![]];
        for _ in 0..len {
            let mut next = Vec::new();
            for h in &paths {
                let mut p = root.clone();
                for m in h {
                    p = p.make(m);
                }
                for m in p.legal_moves().into_iter().filter(|m| allowed.contains(&m.from) && allowed.contains(&m.to)) {
                    let mut t = h.clone();
                    t.push(m);
                    next.push(t);
                }
            }
            paths = next;
        }
        for d in [1u8, 2] {
            for h in paths.iter().step_by(step) {
                let mut g = Game::from_board(build_board(&root), d);
                let mut p = root.clone();
                let mut played: Vec<(Sq, Sq)> = Vec::new();
                let mut occurrences: std::collections::HashMap<CKey, u32> = std::collections::HashMap::new();
                occurrences.insert(canon(&p), 1);
                for k in 0..=h.len() {
                    // a position that has occurred three times ends the game: nothing is asked there
                    if occurrences.get(&canon(&p)).copied().unwrap_or(0) >= 3 {
                        break;
                    }
                    if occurrences.values().any(|c| *c >= 2) {
                        asks_after_a_recurrence += 1;
                    }
                    path_asks += 1;
                    let ql = p.legal_moves();
                    match ask(&mut g) {
                        Ok(m) if ql.iter().any(|x| describe_model(x) == m) => {
                            outcomes.insert(m);
                        }
                        other => {
                            sink.push(Violation { prop: "C15".into(), class: "no-legal-move-from-long-lived-game".into(), seed: root.to_fen(), path: text(&played), detail: format!("one Game asked for its move before every ply of {:?}; in {} it answers {:?}", text(&played), p.to_fen(), other.map(|m| desc_str(&m))), extra: json!({"kind": "c15-path", "fen": root.to_fen(), "history": text(&played), "depth": d}) });
                            break;
                        }
                    }
                    if k == h.len() {
                        break;
                    }
                    let m = &h[k];
                    match guarded(|| g.apply_chess_move_by_from_to_coordinates(bb(m.from), bb(m.to))) {
                        Ok(Ok(_)) => {}
                        _ => break,
                    }
                    g.board_mut().toggle_turn();
                    p = p.make(m);
                    *occurrences.entry(canon(&p)).or_insert(0) += 1;
                    played.push((m.from, m.to));
                }
            }
        }
    }
    rep.add("asks_along_long_lived_game_paths", path_asks);
    rep.add("asks_in_games_where_a_position_has_recurred", asks_after_a_recurrence);
    rep.add("supplied_position_asks", sup_asks);
    rep.add("supplied_positions", supplied.len() as u64);
    rep.add("answers_taken_from_the_book", book_answers);
    rep.add("answers_found_by_search", search_answers);
    rep.add("distinct_moves_proposed", outcomes.len() as u64);
    rep.states = nodes.len() as u64 + dep + supplied.len() as u64;
    rep.transitions = edges + asks + dep + sup_asks;
    rep.traces = asks + dep + sup_asks + path_asks;
    rep.samples = vec![
        json!({"book_node_example": nodes.iter().rev().find(|n| n.prefix.len() >= 4).map(|n| json!({"prefix": text(&n.prefix), "position": n.pos.to_fen(), "next": n.next.iter().map(|(f, t, nm)| json!([format!("{}{}", sq_name(*f), sq_name(*t)), nm])).collect::<Vec<_>>()}))}),
        json!({"supplied_example": supplied.last().map(|(n, p)| json!({"name": n, "fen": p.to_fen()}))}),
    ];
    rep.bounds = json!({"book": "every node and edge of the compiled trie", "engine_depths": depths, "departures": if thorough { "every off-book legal move at every node" } else { "every off-book legal move at nodes of depth <= 1, two at deeper nodes" }, "supplied": "all tree seeds + every position within 1 (thorough: 2) plies of the start, empty history and legal book-prefix histories of length <= 2, once per book choice"});
    rep.rule = "state = book node / game history / supplied position; transitions = book edges checked against the model and real select_waterfall_book_then_alpha_beta_best_move calls, one per possible random book choice".into();
    rep.assumptions = vec!["depth 0 is excluded (DepthTooLow is the declared answer there, C07)".into(), "positions without a legal move are skipped (premise of the statement)".into()];
    rep.mandatory = vec!["book_edges".into(), "engine_asked_at_book_nodes".into(), "one_move_departures_asked".into(), "supplied_position_asks".into(), "answers_taken_from_the_book".into(), "answers_found_by_search".into()];
    rep.finish(&sink)
}

pub fn replay(v: &serde_json::Value) -> i32 {
    use_small_generators();
    let strs = |x: &serde_json::Value| -> Vec<(Sq, Sq)> { x.as_array().map(|a| a.iter().filter_map(|s| s.as_str()).map(|s| (parse_sq(&s[0..2]).unwrap(), parse_sq(&s[2..4]).unwrap())).collect()).unwrap_or_default() };
    match v["extra"]["kind"].as_str().unwrap_or("") {
        "c15-book" => {
            let prefix = strs(&v["extra"]["prefix"]);
            let mv = v["extra"]["move"].as_str().unwrap_or("a1a1").to_string();
            let book = Book::default();
            let in_book = book.get_next_moves(to_line(&prefix)).iter().any(|(m, _)| format!("{}{}", sq_name(sq_of(m.from_square())), sq_name(sq_of(m.to_square()))) == mv);
            let mut p = Pos::startpos();
            for (f, t) in &prefix {
                match p.legal_moves().into_iter().find(|m| m.from == *f && m.to == *t) {
                    Some(m) => p = p.make(&m),
                    None => {
                        println!("NOT-REPRODUCED property=C15 (prefix no longer legal)");
                        return 0;
                    }
                }
            }
            let legal = p.legal_moves().iter().any(|m| format!("{}{}", sq_name(m.from), sq_name(m.to)) == mv);
            if in_book && !legal {
                println!("REPRODUCED property=C15 class=book-line-illegal {} after {:?}", mv, text(&prefix));
                1
            } else {
                println!("NOT-REPRODUCED property=C15");
                0
            }
        }
        "c15-path" => {
            let root = Pos::from_fen(v["extra"]["fen"].as_str().unwrap_or("")).unwrap();
            let hist = strs(&v["extra"]["history"]);
            let d = v["extra"]["depth"].as_u64().unwrap_or(1) as u8;
            let run = || -> bool {
                let mut g = Game::from_board(build_board(&root), d);
                let mut p = root.clone();
                for k in 0..=hist.len() {
                    let ok = matches!(ask(&mut g), Ok(m) if p.legal_moves().iter().any(|x| describe_model(x) == m));
                    if !ok {
                        return true;
                    }
                    if k == hist.len() {
                        break;
                    }
                    let (f, t) = hist[k];
                    if !matches!(guarded(|| g.apply_chess_move_by_from_to_coordinates(bb(f), bb(t))), Ok(Ok(_))) {
                        return true;
                    }
                    g.board_mut().toggle_turn();
                    let m = p.legal_moves().into_iter().find(|m| m.from == f && m.to == t).unwrap();
                    p = p.make(&m);
                }
                false
            };
            let (a, b) = (run(), run());
            if a != b {
                eprintln!("MACHINERY-ERROR: replay is not deterministic");
                return 2;
            }
            if a {
                println!("REPRODUCED property=C15 class=no-legal-move-from-long-lived-game");
                1
            } else {
                println!("NOT-REPRODUCED property=C15");
                0
            }
        }
        kind => {
            let (root, hist) = if kind == "c15-supplied" { (Some(Pos::from_fen(v["extra"]["fen"].as_str().unwrap_or("")).unwrap()), strs(&v["extra"]["history"])) } else { (None, strs(&v["extra"]["prefix"])) };
            let d = v["extra"]["depth"].as_u64().unwrap_or(1) as u8;
            let c = v["extra"]["choice"].as_u64().unwrap_or(0) as usize;
            let mut outs = Vec::new();
            for _ in 0..2 {
                let mut g = match game_after(root.as_ref(), &hist, d) {
                    Some(g) => g,
                    None => {
                        println!("REPRODUCED property=C15 (history refused)");
                        return 1;
                    }
                };
                chess::verif_hooks::set_book_choice(Some(c));
                let r = ask(&mut g);
                chess::verif_hooks::set_book_choice(None);
                let mut q = root.clone().unwrap_or_else(Pos::startpos);
                for (f, t) in &hist {
                    let m = q.legal_moves().into_iter().find(|m| m.from == *f && m.to == *t).unwrap();
                    q = q.make(&m);
                }
                let ok = matches!(&r, Ok(m) if q.legal_moves().iter().any(|x| describe_model(x) == *m));
                outs.push((ok, format!("{:?}", r)));
            }
            if outs[0] != outs[1] {
                eprintln!("MACHINERY-ERROR: replay is not deterministic: {:?}", outs);
                return 2;
            }
            if outs[0].0 {
                println!("NOT-REPRODUCED property=C15 ({})", outs[0].1);
                0
            } else {
                println!("REPRODUCED property=C15 {}", outs[0].1);
                1
            }
        }
    }
}
