//! C17 — repetition accounting counts true recurrences and draws at the third.
//!
//! Model: a multiset of full positions (placement, side to move, castling rights, ep target).
//! Alphabet per seed: play one move of a restricted menu (moves between a few squares, so that
//! recurrences are dense), then pass the turn and register;  or unregister and take the last
//! move back.  ALL histories over that alphabet up to length L are executed on one real board;
//! after every operation the returned count, `max_seen_position_count` and the draw verdict
//! are compared with the model.  End to end: every shuffle history is also played through
//! the `Game` API with the callers' turn toggle and the draw verdict checked when a position
//! has occurred three times.

use crate::bind::*;
use crate::refchess::*;
use crate::report::{Report, Sink, Violation};
use crate::walk::impl_move_from_model;
use crate::Args;
use chess::evaluate::{self, GameEnding};
use chess::game::game::Game;
use chess::move_generator::MoveGenerator;
use rustc_hash::FxHashMap;
use serde_json::json;

struct RSeed {
    name: &'static str,
    fen: &'static str,
    squares: &'static [&'static str],
    why: &'static str,
}

const SEEDS: &[RSeed] = &[
    RSeed { name: "corner-shuffle", fen: "7k/7r/8/8/8/8/K7/R7 w - - 0 1", squares: &["a1", "b1", "a2", "a3", "h8", "g8", "h7", "g7"], why: "the shuffle of the repository's own test: true recurrences with the same side to move" },
    RSeed { name: "triangulation", fen: "7k/8/8/8/8/8/8/K7 w - - 0 1", squares: &["a1", "b1", "b2", "h8", "g8"], why: "the white king triangulates: same placement with the other side to move is NOT a recurrence" },
    RSeed { name: "castling-right-lost", fen: "r3k2r/8/8/8/8/8/8/R3K2R w KQkq - 0 1", squares: &["a1", "b1", "h8", "g8", "h1", "g1", "a8", "b8"], why: "rook shuffles return the placement with fewer castling rights: NOT a recurrence" },
    RSeed { name: "ep-opportunity", fen: "4k3/8/8/8/4p3/8/3P4/4K3 w - - 0 1", squares: &["d2", "d4", "e1", "e2", "e8", "e7"], why: "the placement after d2d4 recurs later without the en-passant target: NOT a recurrence" },
    RSeed { name: "single-pawn-step", fen: "4k3/8/8/8/8/8/3P4/4K3 w - - 0 1", squares: &["d2", "d3", "e1", "e2", "e8", "e7"], why: "the position right after a single pawn step recurs (an irreversible move made in mid-history)" },
    RSeed { name: "capture", fen: "4k3/1p6/8/8/8/8/8/1R2K3 w - - 0 1", squares: &["b1", "b7", "e1", "e2", "e8", "e7", "d8"], why: "the position right after a capture recurs" },
    RSeed { name: "ep-then-right-lost", fen: "1n2k3/8/8/8/8/8/P7/4K2R w K - 0 1", squares: &["a2", "a4", "h1", "g1", "b8", "c6"], why: "after a2a4 the rook shuffles away the castling right: the placement recurs with NEITHER the en-passant target NOR the right (two components of the position differ at once): NOT a recurrence" },
    RSeed { name: "ep-then-right-lost-black", fen: "r3k3/7p/8/8/8/8/8/1N2K3 b q - 0 1", squares: &["h7", "h5", "a8", "b8", "b1", "c3"], why: "same with colours reversed, other wing" },
    RSeed { name: "ep-opportunity-black", fen: "4k3/4p3/8/3P4/8/8/8/4K3 b - - 0 1", squares: &["e7", "e5", "e1", "e2", "e8", "d8"], why: "same with colours reversed" },
];

#[derive(Clone)]
enum OpRec {
    Play(Move),
    Undo,
}

fn menu(pos: &Pos, allowed: &[Sq]) -> Vec<Move> {
    pos.legal_moves().into_iter().filter(|m| allowed.contains(&m.from) && allowed.contains(&m.to)).collect()
}

struct Ctx<'a> {
    seed: &'a RSeed,
    allowed: Vec<Sq>,
    sink: &'a Sink,
    ops: u64,
    histories: u64,
    recurrences: u64,
    threefold: u64,
    placement_only_recurrences: u64,
    g: MoveGenerator,
    max_mult: u32,
    /// C05 mode: the same histories, but the only thing judged is that the position key does not
    /// depend on how often the position has been registered
    c05: bool,
    key_checks: u64,
}

fn ops_text(ops: &[OpRec]) -> Vec<String> {
    ops.iter()
        .map(|o| match o {
            OpRec::Play(m) => uci(m),
            OpRec::Undo => "undo".to_string(),
        })
        .collect()
}

/// DFS over all operation sequences of length <= depth on ONE live board.
#[allow(clippy::too_many_arguments)]
fn explore(cx: &mut Ctx, board: &mut chess::board::Board, stack: &mut Vec<(Pos, Move, u32)>, pos: &Pos, ms: &mut FxHashMap<CKey, u32>, placement_ms: &mut FxHashMap<[u64; 4], u32>, ops: &mut Vec<OpRec>, depth: u32) {
    cx.histories += 1;
    if depth == 0 {
        return;
    }
    let viol = |cx: &Ctx, class: &str, ops: &[OpRec], detail: String| {
        if cx.c05 {
            return;
        }
        cx.sink.push(Violation { prop: "C17".into(), class: class.into(), seed: cx.seed.fen.into(), path: ops_text(ops), detail, extra: json!({"kind": "c17", "seed": cx.seed.name}) });
    };
    // --- play each menu move ---
    for m in menu(pos, &cx.allowed) {
        let im = impl_move_from_model(&m, pos.stm);
        if !matches!(guarded(|| im.apply(board)), Ok(Ok(()))) {
            viol(cx, "apply-failed", ops, uci(&m));
            return;
        }
        board.toggle_turn();
        let succ = pos.make(&m);
        let key = canon(&succ);
        let pk = [key[0], key[1], key[2], key[3]];
        let want = {
            let e = ms.entry(key).or_insert(0);
            *e += 1;
            *e
        };
        let pwant = {
            let e = placement_ms.entry(pk).or_insert(0);
            *e += 1;
            *e
        };
        ops.push(OpRec::Play(m));
        cx.ops += 1;
        cx.max_mult = cx.max_mult.max(want);
        if want >= 2 {
            cx.recurrences += 1;
        }
        if pwant > want {
            cx.placement_only_recurrences += 1;
        }
        let got = guarded(|| board.count_current_position());
        if cx.c05 {
            cx.key_checks += 1;
            let here = board.current_position_hash();
            let direct = build_board(&succ).current_position_hash();
            if here != direct {
                cx.sink.push(Violation { prop: "C05".into(), class: "key-depends-on-registration-count".into(), seed: cx.seed.fen.into(), path: ops_text(ops), detail: format!("{} registered {} time(s) on this board: key {:#018x}, the same position set up directly has key {:#018x}", succ.to_fen(), want, here, direct), extra: json!({"kind": "c05-registered", "seed": cx.seed.name}) });
            }
        }
        let mut ok = true;
        match got {
            Ok(c) => {
                if c as u32 != want {
                    ok = false;
                    let cls = if (c as u32) > want { "counts-a-different-position-as-recurrence" } else { "misses-a-true-recurrence" };
                    viol(cx, cls, ops, format!("registering {} returned {}, the position has been registered {} time(s) (placement alone: {})", succ.to_fen(), c, want, pwant));
                }
                let ms_seen = board.max_seen_position_count() as u32;
                if ok && ms_seen != want {
                    ok = false;
                    viol(cx, "reported-count-differs-from-registration", ops, format!("max_seen_position_count {} after a registration that returned {}", ms_seen, c));
                }
            }
            Err(p) => {
                ok = false;
                viol(cx, "panic-in-count", ops, p);
            }
        }
        if ok {
            let turn = color_of(succ.stm);
            match guarded(|| evaluate::game_ending(board, &mut cx.g, turn)) {
                Ok(e) => {
                    let is_draw = matches!(e, Some(GameEnding::Draw));
                    if want == 3 {
                        cx.threefold += 1;
                        if !is_draw {
                            viol(cx, "no-draw-at-third-occurrence", ops, format!("{} registered 3 times, verdict {:?}", succ.to_fen(), e));
                        }
                    } else if want < 3 && is_draw && succ.halfmove < 100 {
                        viol(cx, "draw-before-third-occurrence", ops, format!("{} registered {} time(s), verdict draw", succ.to_fen(), want));
                    }
                }
                Err(p) => viol(cx, "panic-in-game_ending", ops, p),
            }
        }
        stack.push((pos.clone(), m, want));
        if ok {
            explore(cx, board, stack, &succ, ms, placement_ms, ops, depth - 1);
        }
        stack.pop();
        // take it back for the next sibling (not an explored operation: harness bookkeeping), checking
        // the inverse on the way
        let back = guarded(|| board.uncount_current_position());
        *ms.get_mut(&key).unwrap() -= 1;
        *placement_ms.get_mut(&pk).unwrap() -= 1;
        if ok {
            if let Ok(c) = back {
                if c as u32 != want - 1 {
                    viol(cx, "unregister-is-not-the-inverse", ops, format!("unregistering {} returned {}, expected {}", succ.to_fen(), c, want - 1));
                }
            } else if let Err(p) = back {
                viol(cx, "panic-in-uncount", ops, p);
            }
        }
        ops.pop();
        board.toggle_turn();
        if !matches!(guarded(|| im.undo(board)), Ok(Ok(()))) {
            viol(cx, "undo-failed", ops, uci(&m));
            return;
        }
    }
    // --- explicit undo operation: unregister + take back, then continue exploring from there ---
    if let Some((prev_pos, m, cnt)) = stack.last().cloned() {
        // the current position `pos` was registered with count `cnt`
        let key = canon(pos);
        let pk = [key[0], key[1], key[2], key[3]];
        let snap_reg = board.max_seen_position_count();
        let back = guarded(|| board.uncount_current_position());
        *ms.get_mut(&key).unwrap() -= 1;
        *placement_ms.get_mut(&pk).unwrap() -= 1;
        ops.push(OpRec::Undo);
        cx.ops += 1;
        let im = impl_move_from_model(&m, prev_pos.stm);
        board.toggle_turn();
        let undone = matches!(guarded(|| im.undo(board)), Ok(Ok(())));
        let mut ok = undone;
        match &back {
            Ok(c) if *c as u32 == cnt - 1 => {}
            Ok(c) => {
                ok = false;
                viol(cx, "unregister-is-not-the-inverse", ops, format!("unregistering returned {}, expected {} (registered count was {}, reported {})", c, cnt - 1, cnt, snap_reg));
            }
            Err(p) => {
                ok = false;
                viol(cx, "panic-in-uncount", ops, p.clone());
            }
        }
        // after the inverse, the reported count must be the one of the previous registration
        let popped = stack.pop().unwrap();
        let prev_cnt = stack.last().map(|x| x.2).unwrap_or(1);
        if ok && board.max_seen_position_count() as u32 != prev_cnt {
            ok = false;
            viol(cx, "unregister-does-not-restore-reported-count", ops, format!("max_seen_position_count {} after undo, the previous registration had returned {}", board.max_seen_position_count(), prev_cnt));
        }
        if ok {
            explore(cx, board, stack, &prev_pos, ms, placement_ms, ops, depth - 1);
        }
        // restore for the caller: redo the move and its registration (harness bookkeeping)
        stack.push(popped);
        if undone {
            let _ = guarded(|| im.apply(board));
            board.toggle_turn();
            let _ = guarded(|| board.count_current_position());
        }
        *ms.get_mut(&key).unwrap() += 1;
        *placement_ms.get_mut(&pk).unwrap() += 1;
        ops.pop();
    }
}

/// End to end through the Game API: all menu-move sequences of length `len`; whenever a position
/// has occurred three times (model), `check_game_over_for_current_turn` must say Draw.
fn game_api(seed: &RSeed, allowed: &[Sq], len: u32, sink: &Sink, odd_counter: bool) -> (u64, u64, u64) {
    let mut root = Pos::from_fen(seed.fen).unwrap();
    if odd_counter {
        // a hand-built board whose move counter was never set to match the side to move: which
        // side is to move is the board's `turn`, whatever the counter's parity
        root.ply += 1;
    }
    let mut games = 0u64;
    let mut third = 0u64;
    let mut reported = 0u64;
    // enumerate sequences (model) first, then play each through a fresh Game
    let mut seqs: Vec<Vec<Move>> = vec![vec![]];
    for _ in 0..len {
        let mut next = Vec::new();
        for s in &seqs {
            let mut p = root.clone();
            for m in s {
                p = p.make(m);
            }
            for m in menu(&p, allowed) {
                let mut t = s.clone();
                t.push(m);
                next.push(t);
            }
        }
        seqs = next;
    }
    for s in &seqs {
        // only sequences in which some position occurs three times are interesting
        let mut ms: FxHashMap<CKey, u32> = FxHashMap::default();
        let mut p = root.clone();
        ms.insert(canon(&p), 1);
        let mut hits = Vec::new();
        for (i, m) in s.iter().enumerate() {
            p = p.make(m);
            let e = ms.entry(canon(&p)).or_insert(0);
            *e += 1;
            if *e == 3 {
                hits.push(i);
            }
        }
        if hits.is_empty() {
            continue;
        }
        games += 1;
        let mut game = Game::from_board(build_board(&root), 1);
        let mut p = root.clone();
        for (i, m) in s.iter().enumerate() {
            // moves are entered alternately by coordinates and by their notation (two entry points)
            let r = if (i + games as usize) % 2 == 0 {
                guarded(|| game.apply_chess_move_by_from_to_coordinates(bb(m.from), bb(m.to)))
            } else {
                let legal = p.legal_moves();
                let label = crate::refchess::san::san(&p, m, &legal);
                guarded(|| game.apply_chess_move_from_raw_algebraic_notation(label))
            };
            if !matches!(r, Ok(Ok(_))) {
                sink.push(Violation { prop: "C17".into(), class: "game-api-refuses-legal-move".into(), seed: seed.fen.into(), path: s.iter().map(uci).collect(), detail: format!("{:?}", r.map(|x| x.map(|_| ()).map_err(|e| e.to_string()))), extra: json!({"kind": "c17-game", "seed": seed.name}) });
                break;
            }
            game.board_mut().toggle_turn();
            p = p.make(m);
            if !hits.contains(&i) {
                // before the third occurrence the game must not be reported drawn
                let e = guarded(|| game.check_game_over_for_current_turn());
                if matches!(e, Ok(Some(GameEnding::Draw))) {
                    sink.push(Violation {
                        prop: "C17".into(),
                        class: "game-api-draws-before-third-occurrence".into(),
                        seed: seed.fen.into(),
                        path: s[..=i].iter().map(uci).collect(),
                        detail: format!("position {} reported drawn although no position has occurred three times yet (max_seen_position_count = {})", p.to_fen(), game.board().max_seen_position_count()),
                        extra: json!({"kind": "c17-game", "seed": seed.name}),
                    });
                    break;
                }
            }
            if hits.contains(&i) {
                third += 1;
                let e = guarded(|| game.check_game_over_for_current_turn());
                if matches!(e, Ok(Some(GameEnding::Draw))) {
                    reported += 1;
                } else {
                    sink.push(Violation {
                        prop: "C17".into(),
                        class: "game-api-never-registers-positions".into(),
                        seed: seed.fen.into(),
                        path: s[..=i].iter().map(uci).collect(),
                        detail: format!("position {} has occurred three times in a game played through Game::apply_chess_move_by_from_to_coordinates (+ the callers' turn toggle) but check_game_over_for_current_turn says {:?}; max_seen_position_count = {}", p.to_fen(), e, game.board().max_seen_position_count()),
                        extra: json!({"kind": "c17-game", "seed": seed.name}),
                    });
                }
                break;
            }
        }
    }
    (games, third, reported)
}

/// Long cyclic games: White repeats a rook tour of `wc` moves, Black a rook tour of `bc` moves (no
/// captures, no pawn moves), so that positions recur after long gaps (the whole position after
/// lcm(wc, bc) full moves).  Played once on a bare board with explicit registration and once
/// through the Game API; the reported count is compared with the model's multiset at every ply.
fn long_cycles(sink: &Sink, thorough: bool) -> (u64, u64, u64) {
    // the white king walks a closed loop of w squares near a1, the black king one of b squares near
    // h8 (every square of a loop is visited once per round, so a position recurs exactly every
    // lcm(w, b) full moves: 60-ply and 80-ply gaps, and 48 plies just under fifty)
    let root = Pos::from_fen("7k/8/8/8/8/8/8/K7 w - - 0 1").unwrap();
    let tour = |_len: usize, squares: &[&str]| -> Vec<(Sq, Sq)> {
        let sq: Vec<Sq> = squares.iter().map(|x| parse_sq(x).unwrap()).collect();
        (0..sq.len()).map(|i| (sq[i], sq[(i + 1) % sq.len()])).collect()
    };
    let wloops: [&[&str]; 3] = [&["a1", "b1", "b2"], &["a1", "b1", "b2", "a2"], &["a1", "b1", "c2", "b3", "a2"]];
    let bloops: [&[&str]; 3] = [&["h8", "g8", "f8", "e8", "d8", "d7", "e7", "f7", "g7", "h7"], &["h8", "g8", "f8", "e8", "e7", "f7", "g7", "h7"], &["h8", "g8", "f8", "f7", "g7", "h7"]];
    let (mut games, mut plies, mut long_gap) = (0u64, 0u64, 0u64);
    let cycles: Vec<(usize, usize)> = if thorough { vec![(0, 0), (0, 1), (0, 2), (1, 0), (1, 1), (1, 2), (2, 0), (2, 1), (2, 2)] } else { vec![(0, 0), (0, 1), (2, 1), (1, 2)] };
    for (wi, bi) in cycles {
        let wt = tour(0, wloops[wi]);
        let bt = tour(0, bloops[bi]);
        let (wc, bc) = (wt.len(), bt.len());
        for via_game in [false, true] {
            games += 1;
            let mut board = build_board(&root);
            let mut game = if via_game { Some(Game::from_board(build_board(&root), 1)) } else { None };
            if !via_game {
                board.count_current_position();
            }
            let mut ms: FxHashMap<CKey, (u32, usize)> = FxHashMap::default();
            ms.insert(canon(&root), (1, 0));
            let mut p = root.clone();
            let mut played: Vec<String> = Vec::new();
            for ply in 0..96usize {
                let (f, t) = if ply % 2 == 0 { wt[(ply / 2) % wt.len()] } else { bt[(ply / 2) % bt.len()] };
                let m = match p.legal_moves().into_iter().find(|m| m.from == f && m.to == t) {
                    Some(m) => m,
                    None => break,
                };
                p = p.make(&m);
                played.push(uci(&m));
                plies += 1;
                let e = ms.entry(canon(&p)).or_insert((0, ply + 1));
                e.0 += 1;
                let want = e.0;
                let gap = ply + 1 - e.1;
                e.1 = ply + 1;
                if want >= 2 && gap >= 50 {
                    long_gap += 1;
                }
                let got: u32 = if let Some(g) = game.as_mut() {
                    if !matches!(guarded(|| g.apply_chess_move_by_from_to_coordinates(bb(f), bb(t))), Ok(Ok(_))) {
                        break;
                    }
                    g.board_mut().toggle_turn();
                    g.board().max_seen_position_count() as u32
                } else {
                    let im = impl_move_from_model(&m, p.stm.other());
                    if !matches!(guarded(|| im.apply(&mut board)), Ok(Ok(()))) {
                        break;
                    }
                    board.toggle_turn();
                    guarded(|| board.count_current_position()).map(|c| c as u32).unwrap_or(999)
                };
                if got != want {
                    sink.push(Violation {
                        prop: "C17".into(),
                        class: if got < want { "misses-a-true-recurrence(long-gap)".into() } else { "counts-a-different-position-as-recurrence(long-game)".into() },
                        seed: root.to_fen(),
                        path: played.clone(),
                        detail: format!("cyclic game (white tour of {} moves, black tour of {}, {}): after ply {} the position {} has occurred {} time(s), previous occurrence {} plies earlier; reported {}", wc, bc, if via_game { "through the Game API" } else { "explicit registration" }, ply + 1, p.to_fen(), want, gap, got),
                        extra: json!({"kind": "c17-cycle", "seed": "cycles"}),
                    });
                    break;
                }
                if want == 3 && p.halfmove < 100 {
                    let verdict = if let Some(g) = game.as_mut() { guarded(|| g.check_game_over_for_current_turn()) } else { guarded(|| evaluate::game_ending(&mut board, &mut MoveGenerator::new(), color_of(p.stm))) };
                    if !matches!(verdict, Ok(Some(GameEnding::Draw))) {
                        sink.push(Violation { prop: "C17".into(), class: "no-draw-at-third-occurrence(long-game)".into(), seed: root.to_fen(), path: played.clone(), detail: format!("third occurrence of {} after ply {} not reported as a draw: {:?}", p.to_fen(), ply + 1, verdict), extra: json!({"kind": "c17-cycle", "seed": "cycles"}) });
                    }
                    break;
                }
            }
        }
    }
    (games, plies, long_gap)
}

/// C05: along every register / unregister history (three seeds, the given length) the key of the
/// live board equals the key of the same position set up directly, whatever the multiplicity.
pub fn c05_keys_under_registration(sink: &Sink, rep: &mut Report, len: u32) {
    let mut total = 0u64;
    let mut maxm = 0u32;
    for seed in SEEDS.iter().filter(|s| matches!(s.name, "corner-shuffle" | "triangulation" | "castling-right-lost")) {
        let root = Pos::from_fen(seed.fen).unwrap();
        let allowed: Vec<Sq> = seed.squares.iter().map(|s| parse_sq(s).unwrap()).collect();
        let mut cx = Ctx { seed, allowed, sink, ops: 0, histories: 0, recurrences: 0, threefold: 0, placement_only_recurrences: 0, g: MoveGenerator::new(), max_mult: 0, c05: true, key_checks: 0 };
        let mut board = build_board(&root);
        let mut ms: FxHashMap<CKey, u32> = FxHashMap::default();
        let mut pms: FxHashMap<[u64; 4], u32> = FxHashMap::default();
        let k = canon(&root);
        ms.insert(k, 1);
        pms.insert([k[0], k[1], k[2], k[3]], 1);
        let _ = board.count_current_position();
        let mut stack = Vec::new();
        let mut ops = Vec::new();
        explore(&mut cx, &mut board, &mut stack, &root, &mut ms, &mut pms, &mut ops, len);
        total += cx.key_checks;
        maxm = maxm.max(cx.max_mult);
        rep.states += cx.histories;
        rep.transitions += cx.ops;
    }
    rep.add("keys_compared_on_boards_with_registered_positions", total);
    rep.counters.insert("largest_registration_multiplicity".into(), maxm as u64);
}

pub fn run(a: &Args) -> i32 {
    let mut rep = Report::new("C17", &a.tier, a.seed);
    let sink = Sink::new(6);
    let thorough = a.tier == "thorough";
    let len = if thorough { 11 } else { 9 };
    let mut samples = Vec::new();
    for seed in SEEDS {
        let root = Pos::from_fen(seed.fen).unwrap();
        if !root.is_consistent() {
            eprintln!("MACHINERY-ERROR: inconsistent C17 seed {}", seed.name);
            return 2;
        }
        let allowed: Vec<Sq> = seed.squares.iter().map(|s| parse_sq(s).unwrap()).collect();
        let mut cx = Ctx { seed, allowed: allowed.clone(), sink: &sink, ops: 0, histories: 0, recurrences: 0, threefold: 0, placement_only_recurrences: 0, g: MoveGenerator::new(), max_mult: 0, c05: false, key_checks: 0 };
        let mut board = build_board(&root);
        let mut ms: FxHashMap<CKey, u32> = FxHashMap::default();
        let mut pms: FxHashMap<[u64; 4], u32> = FxHashMap::default();
        // the initial position is registered as it arises
        let k = canon(&root);
        ms.insert(k, 1);
        pms.insert([k[0], k[1], k[2], k[3]], 1);
        let c0 = board.count_current_position();
        if c0 != 1 {
            sink.push(Violation { prop: "C17".into(), class: "first-registration-not-one".into(), seed: seed.fen.into(), path: vec![], detail: format!("returned {}", c0), extra: json!({"kind": "c17", "seed": seed.name}) });
        }
        let mut stack = Vec::new();
        let mut ops = Vec::new();
        explore(&mut cx, &mut board, &mut stack, &root, &mut ms, &mut pms, &mut ops, len);
        rep.states += cx.histories;
        rep.transitions += cx.ops;
        rep.traces += cx.histories;
        rep.add("operation_histories", cx.histories);
        rep.add("register_or_unregister_operations", cx.ops);
        rep.add("true_recurrences_registered", cx.recurrences);
        rep.add("third_occurrences", cx.threefold);
        rep.add("recurrences_of_placement_only_(other_side_rights_or_ep)", cx.placement_only_recurrences);
        // the irreversible-move seeds need one ply more (the pawn step / capture itself)
        let glen = if thorough { 10 } else if matches!(seed.name, "single-pawn-step" | "capture") { 9 } else { 8 };
        let (mut games, mut third, mut reported) = game_api(seed, &allowed, glen, &sink, false);
        let (g2, t2, r2) = game_api(seed, &allowed, glen, &sink, true);
        games += g2;
        third += t2;
        reported += r2;
        rep.add("game_api_games_with_a_third_occurrence", games);
        rep.add("game_api_third_occurrences_checked", third);
        rep.add("game_api_draws_reported", reported);
        rep.states += games;
        rep.traces += games;
        samples.push(json!({"seed": seed.name, "fen": seed.fen, "menu_squares": seed.squares, "forces": seed.why, "history_length": len, "histories": cx.histories, "max_multiplicity": cx.max_mult}));
    }
    let (cg, cp, lg) = long_cycles(&sink, thorough);
    rep.add("long_cyclic_games", cg);
    rep.add("long_cyclic_game_plies", cp);
    rep.add("recurrences_after_a_gap_of_50_plies_or_more", lg);
    rep.states += cp;
    rep.transitions += cp;
    samples.push(json!({"long_cyclic_games": "white rook tour of w moves against black rook tour of b moves, up to 96 plies, explicit registration and Game API", "games": cg}));
    rep.mandatory.push("recurrences_after_a_gap_of_50_plies_or_more".into());
    rep.samples = samples;
    rep.bounds = json!({"alphabet": "menu moves (moves between the listed squares, captures included) + undo", "history_length": len, "game_api_sequence_length": if thorough { "10" } else { "8 (9 for the irreversible-move seeds)" }});
    rep.rule = "state = operation history; every history over the alphabet up to the length bound is executed on one live board; counts, reported count and draw verdict compared with a multiset of full positions".into();
    rep.assumptions = vec!["positions are registered after the move is made and the turn has been passed (\"as it arises\")".into(), "multiplicities above 3 are not judged".into()];
    let extra_mand = std::mem::take(&mut rep.mandatory);
    rep.mandatory = vec!["true_recurrences_registered".into(), "third_occurrences".into(), "recurrences_of_placement_only_(other_side_rights_or_ep)".into(), "game_api_third_occurrences_checked".into()];
    rep.mandatory.extend(extra_mand);
    rep.finish(&sink)
}

pub fn replay(v: &serde_json::Value) -> i32 {
    // re-run the seed's exploration restricted to the recorded history's length and look for the class
    let name = v["extra"]["seed"].as_str().unwrap_or("");
    let class = v["class"].as_str().unwrap_or("");
    if v["extra"]["kind"].as_str() == Some("c17-cycle") {
        let mut found = Vec::new();
        for _ in 0..2 {
            let sink = Sink::new(1000);
            long_cycles(&sink, true);
            found.push(sink.take().values().any(|(_, vs)| vs.iter().any(|x| x.class == class)));
        }
        if found[0] != found[1] {
            eprintln!("MACHINERY-ERROR: replay is not deterministic");
            return 2;
        }
        if found[0] {
            println!("REPRODUCED property=C17 class={}", class);
            return 1;
        }
        println!("NOT-REPRODUCED property=C17 class={}", class);
        return 0;
    }
    let seed = match SEEDS.iter().find(|s| s.name == name) {
        Some(s) => s,
        None => {
            eprintln!("MACHINERY-ERROR: unknown C17 seed {}", name);
            return 2;
        }
    };
    let n = v["path"].as_array().map(|a| a.len()).unwrap_or(0) as u32;
    let allowed: Vec<Sq> = seed.squares.iter().map(|s| parse_sq(s).unwrap()).collect();
    let root = Pos::from_fen(seed.fen).unwrap();
    let mut found = Vec::new();
    for _ in 0..2 {
        let sink = Sink::new(1000);
        if v["extra"]["kind"].as_str() == Some("c17-game") {
            game_api(seed, &allowed, n.max(4), &sink, false);
            game_api(seed, &allowed, n.max(4), &sink, true);
        } else {
            let mut cx = Ctx { seed, allowed: allowed.clone(), sink: &sink, ops: 0, histories: 0, recurrences: 0, threefold: 0, placement_only_recurrences: 0, g: MoveGenerator::new(), max_mult: 0, c05: false, key_checks: 0 };
            let mut board = build_board(&root);
            let mut ms: FxHashMap<CKey, u32> = FxHashMap::default();
            let mut pms: FxHashMap<[u64; 4], u32> = FxHashMap::default();
            let k = canon(&root);
            ms.insert(k, 1);
            pms.insert([k[0], k[1], k[2], k[3]], 1);
            board.count_current_position();
            explore(&mut cx, &mut board, &mut Vec::new(), &root, &mut ms, &mut pms, &mut Vec::new(), n.max(1));
        }
        let want_path: Vec<String> = v["path"].as_array().map(|a| a.iter().filter_map(|x| x.as_str().map(|s| s.to_string())).collect()).unwrap_or_default();
        let hit = sink.take().values().any(|(_, vs)| vs.iter().any(|x| x.class == class && x.path == want_path));
        found.push(hit);
    }
    if found[0] != found[1] {
        eprintln!("MACHINERY-ERROR: replay is not deterministic");
        return 2;
    }
    if found[0] {
        println!("REPRODUCED property=C17 class={}", class);
        1
    } else {
        println!("NOT-REPRODUCED property=C17 class={}", class);
        0
    }
}
