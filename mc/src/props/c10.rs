//! C10 — position counting reports the true number of move sequences.
//!
//! Configuration space enumerated completely: seeds x depth 0..D x generator history
//! {brand-new, already served the smaller depths of this seed, already served every earlier
//! seed} x rayon pool size.  Oracle: sum over k = 1..d+1 of the reference model's perft(k)
//! (the model reproduces the published tables).

use crate::bind::*;
use crate::refchess::*;
use crate::report::{Report, Sink, Violation};
use crate::Args;
use chess::move_generator::MoveGenerator;
use rayon::prelude::*;
use serde_json::json;

struct CSeed {
    name: &'static str,
    fen: &'static str,
    dq: u8,
    dt: u8,
}

const SEEDS: &[CSeed] = &[
    CSeed { name: "startpos", fen: "rnbqkbnr/pppppppp/8/8/8/8/PPPPPPPP/RNBQKBNR w KQkq - 0 1", dq: 4, dt: 5 },
    CSeed { name: "kiwipete", fen: "r3k2r/p1ppqpb1/bn2pnp1/3PN3/1p2P3/2N2Q1p/PPPBBPPP/R3K2R w KQkq - 0 1", dq: 2, dt: 3 },
    CSeed { name: "pos3", fen: "8/2p5/3p4/KP5r/1R3p1k/8/4P1P1/8 w - - 0 1", dq: 4, dt: 5 },
    CSeed { name: "pos4", fen: "r3k2r/Pppp1ppp/1b3nbN/nP6/BBP1P3/q4N2/Pp1P2PP/R2Q1RK1 w kq - 0 1", dq: 2, dt: 3 },
    CSeed { name: "pos5", fen: "rnbq1k1r/pp1Pbppp/2p5/8/2B5/8/PPP1NnPP/RNBQK2R w KQ - 1 8", dq: 2, dt: 3 },
    CSeed { name: "pos6", fen: "r4rk1/1pp1qppp/p1np1n2/2b1p1B1/2B1P1b1/P1NP1N2/1PP1QPPP/R4RK1 w - - 0 10", dq: 2, dt: 3 },
    CSeed { name: "ep-transpose", fen: "4k3/1p5p/8/8/8/8/P7/4K3 w - - 0 1", dq: 5, dt: 7 },
    CSeed { name: "ep-transpose-castle", fen: "r3k2r/1p5p/8/8/8/8/P6P/R3K2R w KQkq - 0 1", dq: 3, dt: 4 },
    CSeed { name: "castle-base-b", fen: "r3k2r/8/8/8/8/8/8/R3K2R b KQkq - 0 1", dq: 3, dt: 4 },
    CSeed { name: "promo-race", fen: "n1n5/PPPk4/8/8/8/8/4Kppp/5N1N b - - 0 1", dq: 3, dt: 4 },
    CSeed { name: "ep-rank-pin-pre", fen: "8/3p4/8/K1P4r/8/8/8/7k b - - 0 1", dq: 4, dt: 6 },
    CSeed { name: "ep-set-up", fen: "4k3/8/8/2PpP3/8/8/8/4K3 w - d6 0 1", dq: 4, dt: 6 },
    CSeed { name: "kpk-stalemate", fen: "k7/P7/1K6/8/8/8/8/8 b - - 0 1", dq: 2, dt: 3 },
    CSeed { name: "mated", fen: "rnb1kbnr/pppp1ppp/8/4p3/6Pq/5P2/PPPPP2P/RNBQKBNR w KQkq - 1 3", dq: 2, dt: 3 },
    CSeed { name: "krk", fen: "8/8/8/8/8/k7/8/K6R w - - 0 1", dq: 4, dt: 6 },
];

fn expected(p: &Pos, d: u8, table: &[u64]) -> u64 {
    let _ = p;
    table[..=(d as usize)].iter().sum()
}

fn call(g: &mut MoveGenerator, p: &Pos, d: u8, pool: Option<&rayon::ThreadPool>) -> Result<(u64, bool), String> {
    let mut b = build_board(p);
    let before = snapshot(&b);
    let side = color_of(p.stm);
    let r = match pool {
        Some(pl) => pl.install(|| guarded(|| g.count_positions(d, &mut b, side))),
        None => guarded(|| g.count_positions(d, &mut b, side)),
    };
    r.map(|n| (n as u64, snapshot(&b) == before))
}

pub fn run(a: &Args) -> i32 {
    let mut rep = Report::new("C10", &a.tier, a.seed);
    let sink = Sink::new(6);
    let thorough = a.tier == "thorough";
    // expected values: model perft(1..=D+1) per seed, computed in parallel
    let tables: Vec<Vec<u64>> = SEEDS
        .par_iter()
        .map(|s| {
            let p = Pos::from_fen(s.fen).unwrap();
            let dmax = if thorough { s.dt } else { s.dq };
            let first = p.legal_moves();
            // perft(k) for k = 1..=dmax+1, parallel over root moves
            (1..=(dmax as u32 + 1))
                .map(|k| if k == 1 { first.len() as u64 } else { first.par_iter().map(|m| p.make(m).perft(k - 1)).sum() })
                .collect()
        })
        .collect();
    // cross-check the oracle itself against the published figures quoted in the property
    let start_tab = &tables[0];
    let quoted = [20u64, 420, 9322, 206603, 5072212];
    let mut acc = 0;
    for (i, q) in quoted.iter().enumerate() {
        if i < start_tab.len() {
            acc += start_tab[i];
            if acc != *q {
                eprintln!("MACHINERY-ERROR: oracle disagrees with the figures quoted in the property at depth {}", i);
                return 2;
            }
        }
    }

    let mut calls = 0u64;
    let mut counted = 0u64;
    let mut outcomes = std::collections::BTreeSet::new();
    let mut samples = Vec::new();
    let mut g_all = MoveGenerator::new(); // serves every seed in turn
    let pools: Vec<(usize, rayon::ThreadPool)> = [1usize, 2, 4, 16].iter().map(|&n| (n, rayon::ThreadPoolBuilder::new().num_threads(n).build().unwrap())).collect();
    let mut check = |what: &str, s: &CSeed, p: &Pos, d: u8, r: Result<(u64, bool), String>, tab: &[u64], calls: &mut u64, counted: &mut u64| {
        *calls += 1;
        let want = expected(p, d, tab);
        let extra = json!({"kind": "c10", "fen": s.fen, "depth": d, "config": what});
        match r {
            Ok((n, untouched)) => {
                *counted += n;
                outcomes.insert(n);
                if n != want {
                    sink.push(Violation { prop: "C10".into(), class: "wrong-count".into(), seed: s.fen.into(), path: vec![], detail: format!("{} depth {} [{}]: counted {}, true number {} (difference {})", s.name, d, what, n, want, n as i64 - want as i64), extra: extra.clone() });
                }
                if !untouched {
                    sink.push(Violation { prop: "C10".into(), class: "counting-changed-the-board".into(), seed: s.fen.into(), path: vec![], detail: format!("{} depth {} [{}]", s.name, d, what), extra });
                }
            }
            Err(e) => sink.push(Violation { prop: "C10".into(), class: "panic-while-counting".into(), seed: s.fen.into(), path: vec![], detail: format!("{} depth {} [{}]: {}", s.name, d, what, e), extra }),
        }
    };
    for (si, s) in SEEDS.iter().enumerate() {
        let p = Pos::from_fen(s.fen).unwrap();
        let tab = &tables[si];
        let dmax = if thorough { s.dt } else { s.dq };
        // (a) one generator serving depth 0, 1, ..., dmax of this seed in turn
        let mut g_seed = MoveGenerator::new();
        for d in 0..=dmax {
            let r = call(&mut g_seed, &p, d, None);
            check("generator that served the smaller depths", s, &p, d, r, tab, &mut calls, &mut counted);
        }
        // (b) brand-new generator at the deepest depth and at depth 1
        let fresh_depths: Vec<u8> = if thorough { vec![1u8.min(dmax), dmax] } else { vec![dmax] };
        for d in fresh_depths {
            let r = call(&mut MoveGenerator::new(), &p, d, None);
            check("brand-new generator", s, &p, d, r, tab, &mut calls, &mut counted);
        }
        // (c) the generator that served all earlier seeds
        let d = dmax.min(2);
        let r = call(&mut g_all, &p, d, None);
        check("generator that served all earlier seeds", s, &p, d, r, tab, &mut calls, &mut counted);
        // (d) pool sizes
        let pd = if thorough { dmax } else { dmax.min(3) };
        for (n, pl) in &pools {
            // quick tier: all four pool sizes on the first two seeds and on the ep-transposition
            // seed, a single-thread pool (sequential order) on three more small ones
            let small = matches!(s.name, "ep-transpose" | "ep-set-up" | "krk" | "kpk-stalemate");
            if !thorough && !((si < 1 && (*n == 1 || *n == 16)) || (s.name == "ep-transpose" && (*n == 2 || *n == 4)) || (small && *n == 1)) {
                continue;
            }
            let r = call(&mut MoveGenerator::new(), &p, pd, Some(pl));
            check(&format!("rayon pool of {} thread(s)", n), s, &p, pd, r, tab, &mut calls, &mut counted);
        }
        // ---- the remaining configurations use cheap generators (hooks: reduced LRU capacity, shared
        // copy of the magic tables) so that hundreds of calls fit the budget; the configurations
        // above ran with the engine's own generator construction
        crate::search::use_small_generators();
        // (c') the generator that has just counted the same board for the OTHER colour at the same
        // depth (a consistent set-up position when nobody is in check and no ep target is pending)
        {
            let mut flipped = p.clone();
            flipped.stm = p.stm.other();
            if p.ep.is_none() && !p.in_check(p.stm) && flipped.is_consistent() {
                for d in 0..=dmax.min(if thorough { 2 } else { 1 }) {
                    let mut g = MoveGenerator::new();
                    let _ = call(&mut g, &flipped, d, None);
                    let r = call(&mut g, &p, d, None);
                    check("generator that just counted the same board for the other colour", s, &p, d, r, tab, &mut calls, &mut counted);
                }
            }
        }
        // (c'') the generator that has first answered every OTHER public query about this very
        // board — attack maps and in-check for both colours, the game-ending verdict, plain and
        // annotated move lists, notation — and then counts
        {
            use chess::evaluate;
            for d in 0..=dmax.min(if thorough { 2 } else { 1 }) {
                let mut g = MoveGenerator::new();
                let mut b = build_board(&p);
                let turn = color_of(p.stm);
                let _ = guarded(|| {
                    for side in [Side::White, Side::Black] {
                        let _ = g.get_attack_targets(&b, color_of(side));
                        let _ = evaluate::player_is_in_check(&b, &mut g, color_of(side));
                    }
                    let _ = evaluate::game_ending(&mut b, &mut g, turn);
                    let _ = g.generate_moves(&mut b, turn);
                    let _ = g.generate_moves_and_lazily_update_chess_move_effects(&mut b, turn);
                    let _ = chess::chess_move::algebraic_notation::enumerate_candidate_moves_with_algebraic_notation(&mut b, turn, &mut g);
                });
                let r = call(&mut g, &p, d, None);
                check("generator that first answered every other query about the same board", s, &p, d, r, tab, &mut calls, &mut counted);
            }
        }
        // (c3) the generator has just counted a TWIN of the position: same men, fewer castling
        // rights (every subset of the rights held) - and the other way round, the twin counted after
        // the position itself (its true count comes from the model directly)
        if p.castle != 0 {
            for sub in 0..16u8 {
                if sub & !p.castle != 0 || sub == p.castle {
                    continue;
                }
                let mut twin = p.clone();
                twin.castle = sub;
                if !twin.is_consistent() {
                    continue;
                }
                for d in 0..=dmax.min(1) {
                    let mut g = MoveGenerator::new();
                    let _ = call(&mut g, &twin, d, None);
                    let r = call(&mut g, &p, d, None);
                    check("generator that just counted the same men with fewer castling rights", s, &p, d, r, tab, &mut calls, &mut counted);
                    let mut g2 = MoveGenerator::new();
                    let _ = call(&mut g2, &p, d, None);
                    let r2 = call(&mut g2, &twin, d, None);
                    let want: u64 = (1..=(d as u32 + 1)).map(|k| twin.perft(k)).sum();
                    calls += 1;
                    match r2 {
                        Ok((n, _)) if n == want => {}
                        other => sink.push(Violation { prop: "C10".into(), class: "wrong-count".into(), seed: twin.to_fen(), path: vec![], detail: format!("{} with castling rights {:04b} at depth {} [generator that just counted the same men with rights {:04b}]: {:?}, true number {}", s.name, sub, d, p.castle, other.map(|x| x.0), want), extra: json!({"kind": "c10", "fen": twin.to_fen(), "depth": d, "config": "rights twin"}) }),
                    }
                }
            }
        }
        // (a'') the same generator histories inside pools of one and two threads (a single-thread pool
        // may take a sequential path through the caller's own generator): deepening 0..D with one
        // generator, and the other colour first, for the small seeds and the initial position
        if matches!(s.name, "startpos" | "ep-transpose" | "ep-set-up" | "krk" | "kpk-stalemate" | "promo-race" | "ep-rank-pin-pre") {
            let cap = if s.name == "startpos" { if thorough { 4 } else { 3 } } else if thorough { dmax } else { dmax.min(4) };
            for n in [1usize, 2] {
                let pl = rayon::ThreadPoolBuilder::new().num_threads(n).build().unwrap();
                let mut g = MoveGenerator::new();
                for d in 0..=cap {
                    let r = call(&mut g, &p, d, Some(&pl));
                    check(&format!("generator that served the smaller depths, rayon pool of {} thread(s)", n), s, &p, d, r, tab, &mut calls, &mut counted);
                }
                let mut flipped = p.clone();
                flipped.stm = p.stm.other();
                if p.ep.is_none() && !p.in_check(p.stm) && flipped.is_consistent() {
                    for d in 0..=cap.min(3) {
                        let mut g = MoveGenerator::new();
                        let _ = call(&mut g, &flipped, d, Some(&pl));
                        let r = call(&mut g, &p, d, Some(&pl));
                        check(&format!("generator that just counted the same board for the other colour, rayon pool of {} thread(s)", n), s, &p, d, r, tab, &mut calls, &mut counted);
                    }
                }
            }
        }
        // (d') every pool size 1..16 at depth 1 (quick: initial position and pos3; thorough: all seeds)
        if thorough || matches!(s.name, "startpos" | "pos3") {
            for n in 1..=16usize {
                let pl = rayon::ThreadPoolBuilder::new().num_threads(n).build().unwrap();
                let d = 1u8.min(dmax);
                let r = call(&mut MoveGenerator::new(), &p, d, Some(&pl));
                check(&format!("rayon pool of {} thread(s)", n), s, &p, d, r, tab, &mut calls, &mut counted);
            }
        }
        chess::verif_hooks::set_lru_capacity(0);
        chess::verif_hooks::set_share_magic_tables(false);
        samples.push(json!({"seed": s.name, "fen": s.fen, "max_depth": dmax, "true_counts_by_depth": (0..=dmax).map(|d| expected(&p, d, tab)).collect::<Vec<_>>()}));
    }
    drop(check);
    // command-line level (thorough): `chess count-positions --depth 4` prints one line per depth
    if thorough {
        match crate::props::c14_bin::build_binary() {
            Ok(bin) => {
                let out = std::process::Command::new(&bin).args(["count-positions", "--depth", "4"]).output();
                match out {
                    Ok(o) => {
                        let text = String::from_utf8_lossy(&o.stdout).to_string();
                        let want = [(1u32, 420u64), (2, 9322), (3, 206603), (4, 5072212)];
                        for (d, n) in want {
                            let line = text.lines().find(|l| l.starts_with(&format!("depth: {},", d)));
                            let got = line.and_then(|l| l.split("positions: ").nth(1)).and_then(|r| r.split(',').next()).and_then(|x| x.trim().parse::<u64>().ok());
                            calls += 1;
                            if got != Some(n) {
                                sink.push(Violation { prop: "C10".into(), class: "wrong-count-at-command-line".into(), seed: SEEDS[0].fen.into(), path: vec![], detail: format!("`chess count-positions --depth 4` line for depth {}: {:?}, true number {}", d, line, n), extra: json!({"kind": "c10-cli", "fen": SEEDS[0].fen, "depth": d}) });
                            }
                        }
                        samples.push(json!({"command_line": "chess count-positions --depth 4", "output_head": text.lines().take(5).collect::<Vec<_>>()}));
                    }
                    Err(e) => {
                        eprintln!("MACHINERY-ERROR: cannot run the chess binary: {}", e);
                        return 2;
                    }
                }
            }
            Err(e) => {
                eprintln!("MACHINERY-ERROR: {}", e);
                return 2;
            }
        }
    }
    rep.states = calls;
    rep.transitions = counted;
    rep.traces = calls;
    rep.add("count_positions_calls", calls);
    rep.add("positions_counted_by_the_engine", counted);
    rep.add("distinct_counts_observed", outcomes.len() as u64);
    rep.samples = samples;
    rep.bounds = json!({"seeds": SEEDS.len(), "pool_sizes": "1,2,4,16 at the deepest depth; every size 1..16 at depth 1", "generator_histories": ["brand-new", "served smaller depths of the same seed", "served all earlier seeds", "just counted the same board for the other colour"], "depth": "0..per-seed maximum (see samples)"});
    rep.rule = "state = (seed, depth, generator history, pool size); every combination listed in bounds is executed on the real count_positions and compared with the reference model's perft sums".to_string();
    rep.assumptions = vec!["reference perft of the model (validated on the published tables)".into(), "deeper trees and other seeds are not covered".into()];
    rep.mandatory = vec!["count_positions_calls".into()];
    rep.finish(&sink)
}

pub fn replay(v: &serde_json::Value) -> i32 {
    let fen = v["extra"]["fen"].as_str().unwrap_or("");
    let d = v["extra"]["depth"].as_u64().unwrap_or(0) as u8;
    let p = match Pos::from_fen(fen) {
        Ok(p) => p,
        Err(e) => {
            eprintln!("MACHINERY-ERROR: {}", e);
            return 2;
        }
    };
    let want: u64 = (1..=(d as u32 + 1)).map(|k| p.perft(k)).sum();
    let r1 = call(&mut MoveGenerator::new(), &p, d, None);
    let r2 = call(&mut MoveGenerator::new(), &p, d, None);
    if r1 != r2 {
        eprintln!("MACHINERY-ERROR: replay is not deterministic: {:?} vs {:?}", r1, r2);
        return 2;
    }
    match r1 {
        Ok((n, true)) if n == want => {
            println!("NOT-REPRODUCED property=C10 (brand-new generator, default pool: {} == {})", n, want);
            0
        }
        other => {
            println!("REPRODUCED property=C10 engine {:?}, true number {}", other, want);
            1
        }
    }
}
