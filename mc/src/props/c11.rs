//! C11 — attack geometry tables are exact for every square and occupancy.
//!
//! Enumerated completely, through the public `MoveGenerator::get_attack_targets` only:
//!  * rook / bishop on each of 64 squares x EVERY subset of its full rays (edge squares
//!    included: a superset of the 102,400 + 5,248 relevant-mask cases) x 3 off-ray noise
//!    patterns (none, all off-ray squares occupied, checkerboard);
//!  * queen on each square x (every rook-ray subset x bishop rays {empty, full}) and
//!    (every bishop-ray subset x rook rays {empty, full});
//!  * knight and king on each square: alone, with every subset of enemy pieces on its target
//!    squares (2^8 at most), and with all other squares occupied by enemy pieces;
//!  * plus (walk part) the union semantics incl. friendly blockers: both colours' attack maps
//!    at every state of the tree-seed walk against the ray-walk mirror.
//! Oracle: ray walk up to and including the first occupied square; offset tables with explicit
//! file / rank bounds.  No answer can come from the attack cache: the generator is renewed
//! the moment a board key would repeat.

use crate::bind::*;
use crate::refchess::*;
use crate::report::{Report, Sink, Violation};
use crate::Args;
use chess::board::color::Color;
use chess::board::piece::Piece;
use chess::board::Board;
use chess::move_generator::MoveGenerator;
use rayon::prelude::*;
use serde_json::json;
use std::collections::HashSet;
use std::sync::atomic::{AtomicU64, Ordering};

fn ray_squares(sq: u8, dirs: &[(i8, i8)]) -> Vec<Vec<u8>> {
    let mut rays = Vec::new();
    for &(df, dr) in dirs {
        let mut v = Vec::new();
        let (mut f, mut r) = ((sq % 8) as i8 + df, (sq / 8) as i8 + dr);
        while (0..8).contains(&f) && (0..8).contains(&r) {
            v.push((r * 8 + f) as u8);
            f += df;
            r += dr;
        }
        rays.push(v);
    }
    rays
}

fn expected_slider(rays: &[Vec<u8>], occ: u64) -> u64 {
    let mut m = 0u64;
    for ray in rays {
        for &s in ray {
            m |= 1u64 << s;
            if occ & (1u64 << s) != 0 {
                break;
            }
        }
    }
    m
}

const ROOK_DIRS: [(i8, i8); 4] = [(1, 0), (-1, 0), (0, 1), (0, -1)];
const BISHOP_DIRS: [(i8, i8); 4] = [(1, 1), (1, -1), (-1, 1), (-1, -1)];
const KNIGHT_OFF: [(i8, i8); 8] = [(1, 2), (2, 1), (2, -1), (1, -2), (-1, -2), (-2, -1), (-2, 1), (-1, 2)];
const KING_OFF: [(i8, i8); 8] = [(1, 0), (1, 1), (0, 1), (-1, 1), (-1, 0), (-1, -1), (0, -1), (1, -1)];

fn offsets(sq: u8, offs: &[(i8, i8)]) -> u64 {
    let mut m = 0u64;
    for &(df, dr) in offs {
        let (f, r) = ((sq % 8) as i8 + df, (sq / 8) as i8 + dr);
        if (0..8).contains(&f) && (0..8).contains(&r) {
            m |= 1u64 << (r * 8 + f);
        }
    }
    m
}

struct Asker {
    g: MoveGenerator,
    asked: HashSet<u64>,
    renewals: u64,
}

impl Asker {
    fn new() -> Asker {
        Asker { g: MoveGenerator::new(), asked: HashSet::new(), renewals: 0 }
    }
    /// white piece `piece` on `sq`, black knights on `blockers`; returns White's attack map
    fn ask(&mut self, piece: Piece, sq: u8, blockers: u64) -> Result<u64, String> {
        let mut b = Board::new();
        b.put(bb(sq), piece, Color::White).unwrap();
        let mut x = blockers;
        while x != 0 {
            let s = x.trailing_zeros() as u8;
            x &= x - 1;
            b.put(bb(s), Piece::Knight, Color::Black).unwrap();
        }
        let key = b.current_position_hash();
        if !self.asked.insert(key) {
            // a repeated key could be served from the attack cache: use a new generator
            self.g = MoveGenerator::new();
            self.asked.clear();
            self.asked.insert(key);
            self.renewals += 1;
        }
        guarded(|| self.g.get_attack_targets(&b, Color::White).0)
    }
}

fn subsets_of(squares: &[u8]) -> impl Iterator<Item = u64> + '_ {
    let n = squares.len();
    (0u64..(1u64 << n)).map(move |mask| {
        let mut m = 0u64;
        for (i, &s) in squares.iter().enumerate() {
            if mask & (1 << i) != 0 {
                m |= 1u64 << s;
            }
        }
        m
    })
}

pub fn run(a: &Args) -> i32 {
    let mut rep = Report::new("C11", &a.tier, a.seed);
    let sink = Sink::new(6);
    let evals = AtomicU64::new(0);
    let renewals = AtomicU64::new(0);
    let distinct_outcomes = std::sync::Mutex::new(HashSet::<u64>::new());
    let samples = std::sync::Mutex::new(Vec::new());

    #[derive(Clone, Copy, Debug)]
    enum Task {
        Rook(u8),
        Bishop(u8),
        QueenR(u8),
        QueenB(u8),
        Knight(u8),
        King(u8),
    }
    let mut tasks = Vec::new();
    for sq in 0..64u8 {
        tasks.push(Task::Rook(sq));
        tasks.push(Task::Bishop(sq));
        tasks.push(Task::QueenR(sq));
        tasks.push(Task::QueenB(sq));
        tasks.push(Task::Knight(sq));
        tasks.push(Task::King(sq));
    }
    if a.seed != 0 {
        let k = (a.seed as usize) % tasks.len();
        tasks.rotate_left(k);
    }
    let pool = rayon::ThreadPoolBuilder::new().num_threads(a.threads).build().unwrap();
    pool.install(|| {
        tasks.par_iter().for_each(|t| {
            let mut asker = Asker::new();
            let mut n = 0u64;
            let mut outs: HashSet<u64> = HashSet::new();
            let mut report = |piece: Piece, sq: u8, blockers: u64, want: u64, got: Result<u64, String>, what: &str| match got {
                Ok(g) if g == want => {}
                Ok(g) => sink.push(Violation {
                    prop: "C11".into(),
                    class: format!("{}-targets-wrong", what),
                    seed: format!("white {:?} on {} with blockers {:#018x}", piece, sq_name(sq), blockers),
                    path: vec![],
                    detail: format!("engine {:#018x}, ray walk {:#018x}, difference {:#018x}", g, want, g ^ want),
                    extra: json!({"kind": "c11", "piece": format!("{:?}", piece), "sq": sq, "blockers": blockers}),
                }),
                Err(p) => sink.push(Violation {
                    prop: "C11".into(),
                    class: format!("{}-targets-panic", what),
                    seed: format!("white {:?} on {} with blockers {:#018x}", piece, sq_name(sq), blockers),
                    path: vec![],
                    detail: p,
                    extra: json!({"kind": "c11", "piece": format!("{:?}", piece), "sq": sq, "blockers": blockers}),
                }),
            };
            match *t {
                Task::Rook(sq) | Task::Bishop(sq) => {
                    let (piece, dirs, what) = if matches!(t, Task::Rook(_)) { (Piece::Rook, &ROOK_DIRS, "rook") } else { (Piece::Bishop, &BISHOP_DIRS, "bishop") };
                    let rays = ray_squares(sq, dirs);
                    let all: Vec<u8> = rays.iter().flatten().copied().collect();
                    let raymask: u64 = all.iter().fold(0, |m, &s| m | (1u64 << s));
                    let off = !raymask & !(1u64 << sq);
                    let noises = [0u64, off, off & 0xAA55AA55AA55AA55];
                    for sub in subsets_of(&all) {
                        let want = expected_slider(&rays, sub);
                        for nz in noises {
                            let got = asker.ask(piece, sq, sub | nz);
                            if let Ok(g) = &got {
                                outs.insert(*g ^ ((sq as u64) << 56));
                            }
                            n += 1;
                            report(piece, sq, sub | nz, want, got, what);
                        }
                    }
                    if sq == 27 {
                        samples.lock().unwrap().push(json!({"piece": what, "square": sq_name(sq), "ray_squares": all.len(), "subsets": 1u64 << all.len(), "noise_patterns": 3}));
                    }
                }
                Task::QueenR(sq) | Task::QueenB(sq) => {
                    let rr = ray_squares(sq, &ROOK_DIRS);
                    let br = ray_squares(sq, &BISHOP_DIRS);
                    let (var, fixed) = if matches!(t, Task::QueenR(_)) { (&rr, &br) } else { (&br, &rr) };
                    let var_all: Vec<u8> = var.iter().flatten().copied().collect();
                    let fixed_mask: u64 = fixed.iter().flatten().fold(0, |m, &s| m | (1u64 << s));
                    for sub in subsets_of(&var_all) {
                        for fx in [0u64, fixed_mask] {
                            let occ = sub | fx;
                            let want = expected_slider(&rr, occ) | expected_slider(&br, occ);
                            let got = asker.ask(Piece::Queen, sq, occ);
                            if let Ok(g) = &got {
                                outs.insert(*g ^ ((sq as u64) << 56));
                            }
                            n += 1;
                            report(Piece::Queen, sq, occ, want, got, "queen");
                        }
                    }
                }
                Task::Knight(sq) | Task::King(sq) => {
                    let (piece, offs, what) = if matches!(t, Task::Knight(_)) { (Piece::Knight, &KNIGHT_OFF, "knight") } else { (Piece::King, &KING_OFF, "king") };
                    let want = offsets(sq, offs);
                    let tsq: Vec<u8> = (0..64u8).filter(|s| want & (1u64 << s) != 0).collect();
                    let others = !want & !(1u64 << sq);
                    for sub in subsets_of(&tsq) {
                        for nz in [0u64, others, others & 0x55AA55AA55AA55AA] {
                            let got = asker.ask(piece, sq, sub | nz);
                            if let Ok(g) = &got {
                                outs.insert(*g ^ ((sq as u64) << 56));
                            }
                            n += 1;
                            report(piece, sq, sub | nz, want, got, what);
                        }
                    }
                    if sq == 0 {
                        samples.lock().unwrap().push(json!({"piece": what, "square": "a1", "targets": tsq.iter().map(|s| sq_name(*s)).collect::<Vec<_>>()}));
                    }
                }
            }
            evals.fetch_add(n, Ordering::Relaxed);
            renewals.fetch_add(asker.renewals, Ordering::Relaxed);
            distinct_outcomes.lock().unwrap().extend(outs);
        });
    });
    let direct = evals.load(Ordering::Relaxed);
    rep.add("direct_table_queries", direct);
    rep.add("zobrist_table_digest_low32", zobrist_digest() & 0xFFFF_FFFF);
    rep.add("generator_renewals_on_key_repeat", renewals.load(Ordering::Relaxed));
    rep.add("distinct_attack_sets_observed", distinct_outcomes.lock().unwrap().len() as u64);

    // walk part: union semantics with friendly blockers, both colours, every state of the seed walk
    let (wstates, wq) = walk_part(a, &sink);
    rep.add("walk_states_with_both_attack_maps_compared", wstates);
    rep.add("walk_attack_queries", wq);

    rep.states = direct + wstates;
    rep.transitions = direct + wq;
    rep.traces = direct + wq;
    rep.samples = samples.into_inner().unwrap();
    rep.bounds = json!({"squares": 64, "rook_ray_subsets_per_square": 16384, "bishop_ray_subsets": "2^(number of diagonal squares) per square (128..8192)", "noise_patterns": 3,
        "queen": "all rook-ray subsets x bishop rays {empty, full} and all bishop-ray subsets x rook rays {empty, full}", "knight_king": "all subsets of enemy pieces on the target squares x 3 noise patterns",
        "build_draws": 1});
    rep.rule = "state = (piece, square, occupancy); transition = one real get_attack_targets query on a board built for that state; every state of the stated product is enumerated".to_string();
    rep.assumptions = vec![
        "only the magic multipliers drawn by this build are examined (each draw examined is covered exhaustively; the 2^64-sized draw space is not enumerable)".to_string(),
        "friendly blockers are covered through the union semantics on walked positions, not on the full occupancy product".to_string(),
    ];
    // further draws of the magic constants, produced in process by the repository's own generator
    // (precompile crate) and checked for structural soundness (see `generator_draws`)
    let k = if a.tier == "thorough" { 200 } else { 32 };
    match generator_draws(k, &sink) {
        Ok((draws, entries, subsets)) => {
            rep.add("generator_draws_checked", draws);
            rep.add("generator_magic_entries_checked", entries);
            rep.add("generator_blocker_subsets_checked", subsets);
            rep.states += entries;
            rep.transitions += subsets;
        }
        Err(e) => {
            eprintln!("MACHINERY-ERROR: {}", e);
            return 2;
        }
    }
    near_key_arrangements("C11", &sink, &mut rep);
    generators_built_in_pools(&sink, &mut rep);
    rep.mandatory = vec!["direct_table_queries".into(), "walk_attack_queries".into(), "generator_draws_checked".into(), "near_key_bits_covered".into()];
    if a.tier == "thorough" {
        if let Err(e) = crate::draws::run_draws("C11", 4, &mut rep, &sink) {
            eprintln!("MACHINERY-ERROR: {}", e);
            return 2;
        }
    }
    rep.finish(&sink)
}

/// both colours' attack maps on every state within the quick depths of the tree seeds
fn walk_part(a: &Args, sink: &Sink) -> (u64, u64) {
    use crate::seeds::*;
    let states = AtomicU64::new(0);
    let queries = AtomicU64::new(0);
    let pool = rayon::ThreadPoolBuilder::new().num_threads(a.threads).build().unwrap();
    pool.install(|| {
        TREE_SEEDS.par_iter().for_each(|sd| {
            let root = Pos::from_fen(sd.fen).unwrap();
            let depth = if a.tier == "thorough" { sd.dq + 1 } else { sd.dq.min(2) };
            let mut asker = Asker::new();
            let mut seen: HashSet<CKey> = HashSet::new();
            let mut stack = vec![(root, 0u32)];
            while let Some((p, d)) = stack.pop() {
                if !seen.insert(canon(&p)) {
                    continue;
                }
                states.fetch_add(1, Ordering::Relaxed);
                let b = build_board(&p);
                let key = b.current_position_hash();
                if !asker.asked.insert(key) {
                    asker.g = MoveGenerator::new();
                    asker.asked.clear();
                    asker.asked.insert(key);
                }
                for side in [Side::White, Side::Black] {
                    let want = p.attack_map(side);
                    let got = guarded(|| asker.g.get_attack_targets(&b, color_of(side)).0);
                    queries.fetch_add(1, Ordering::Relaxed);
                    if got != Ok(want) {
                        sink.push(Violation {
                            prop: "C11".into(),
                            class: "position-attack-map-wrong".into(),
                            seed: p.to_fen(),
                            path: vec![],
                            detail: format!("attack map of {:?}: engine {:?}, ray walk {:#018x}", side, got, want),
                            extra: json!({"kind": "c11-pos"}),
                        });
                    }
                }
                if d < depth {
                    for m in p.legal_moves() {
                        stack.push((p.make(&m), d + 1));
                    }
                }
            }
        });
    });
    (states.load(Ordering::Relaxed), queries.load(Ordering::Relaxed))
}

pub fn replay(v: &serde_json::Value) -> i32 {
    if v["extra"]["kind"].as_str() == Some("c11") {
        let piece = match v["extra"]["piece"].as_str().unwrap_or("") {
            "Rook" => Piece::Rook,
            "Bishop" => Piece::Bishop,
            "Queen" => Piece::Queen,
            "Knight" => Piece::Knight,
            _ => Piece::King,
        };
        let sq = v["extra"]["sq"].as_u64().unwrap_or(0) as u8;
        let blockers = v["extra"]["blockers"].as_u64().unwrap_or(0);
        let want = match piece {
            Piece::Rook => expected_slider(&ray_squares(sq, &ROOK_DIRS), blockers),
            Piece::Bishop => expected_slider(&ray_squares(sq, &BISHOP_DIRS), blockers),
            Piece::Queen => expected_slider(&ray_squares(sq, &ROOK_DIRS), blockers) | expected_slider(&ray_squares(sq, &BISHOP_DIRS), blockers),
            Piece::Knight => offsets(sq, &KNIGHT_OFF),
            _ => offsets(sq, &KING_OFF),
        };
        let g1 = Asker::new().ask(piece, sq, blockers);
        let g2 = Asker::new().ask(piece, sq, blockers);
        if g1 != g2 {
            eprintln!("MACHINERY-ERROR: replay is not deterministic");
            return 2;
        }
        if g1 == Ok(want) {
            println!("NOT-REPRODUCED property=C11");
            0
        } else {
            println!("REPRODUCED property=C11 engine {:?} ray walk {:#018x}", g1, want);
            1
        }
    } else {
        let p = match Pos::from_fen(v["seed"].as_str().unwrap_or("")) {
            Ok(p) => p,
            Err(e) => {
                eprintln!("MACHINERY-ERROR: {}", e);
                return 2;
            }
        };
        let b = build_board(&p);
        let mut bad = false;
        for side in [Side::White, Side::Black] {
            let got = guarded(|| MoveGenerator::new().get_attack_targets(&b, color_of(side)).0);
            if got != Ok(p.attack_map(side)) {
                bad = true;
            }
        }
        if bad {
            println!("REPRODUCED property=C11 class=position-attack-map-wrong");
            1
        } else {
            println!("NOT-REPRODUCED property=C11");
            0
        }
    }
}

/// `k` fresh draws of the magic constants from the repository's own generator
/// (`precompile::magic::find_magics::find_and_write_all_magics`), each checked for the conditions
/// under which the run-time lookup `table[offset + ((occ & mask) * magic >> shift)]` (whose
/// formula is exercised exhaustively on this build's draw by the enumeration above) is exact:
/// (1) the mask is the set of ray squares without the edges, (2) the per-square segments
/// [offset, offset + 2^(64-shift)) are pairwise disjoint and inside the declared table size,
/// (3) blocker subsets that share an index have the same attack set.
fn generator_draws(k: usize, sink: &Sink) -> Result<(u64, u64, u64), String> {
    use std::io::BufWriter;
    let dir = format!("{}/target/magic-draws", crate::report::verif_dir());
    std::fs::create_dir_all(&dir).map_err(|e| e.to_string())?;
    let results: Vec<Result<(u64, u64), String>> = (0..k)
        .into_par_iter()
        .map(|i| {
            let path = format!("{}/draw_{}_{}.rs", dir, std::process::id(), i);
            {
                let f = std::fs::File::create(&path).map_err(|e| e.to_string())?;
                let mut w = BufWriter::new(f);
                guarded(|| precompile::magic::find_magics::find_and_write_all_magics(&mut w)).map_err(|p| format!("the magic generator panicked: {}", p))?.map_err(|e| e.to_string())?;
            }
            let text = std::fs::read_to_string(&path).map_err(|e| e.to_string())?;
            let _ = std::fs::remove_file(&path);
            let mut entries = 0u64;
            let mut subsets = 0u64;
            for (name, dirs) in [("ROOK", &ROOK_DIRS), ("BISHOP", &BISHOP_DIRS)] {
                let start = text.find(&format!("pub const {}_MAGICS", name)).ok_or("generated text has no magics table")?;
                let body = &text[start..];
                let end = body.find("];").ok_or("unterminated table")?;
                let mut es: Vec<(u64, u64, u32, usize)> = Vec::new();
                for line in body[..end].lines().filter(|l| l.contains("MagicEntry {")) {
                    let field = |key: &str| -> Option<String> { line.split(&format!("{}: ", key)).nth(1).map(|r| r.split(|c| c == ',' || c == ' ' || c == '}').next().unwrap_or("").to_string()) };
                    // hexadecimal (0x...) or decimal literals, underscores allowed
                    let hex = |s: String| {
                        let t = s.replace('_', "");
                        match t.strip_prefix("0x").or_else(|| t.strip_prefix("0X")) {
                            Some(h) => u64::from_str_radix(h, 16).ok(),
                            None => t.parse::<u64>().ok(),
                        }
                    };
                    let mask = field("mask").and_then(hex).ok_or("bad mask")?;
                    let magic = field("magic").and_then(hex).ok_or("bad magic")?;
                    let shift: u32 = field("shift").and_then(|s| s.parse().ok()).ok_or("bad shift")?;
                    let offset: usize = field("offset").and_then(|s| s.parse().ok()).ok_or("bad offset")?;
                    es.push((mask, magic, shift, offset));
                }
                if es.len() != 64 {
                    return Err(format!("{} table has {} entries", name, es.len()));
                }
                let size: usize = text.split(&format!("pub const {}_TABLE_SIZE: usize = ", name)).nth(1).and_then(|r| r.split(';').next()).and_then(|s| s.trim().parse().ok()).ok_or("no table size")?;
                let mut segs: Vec<(usize, usize, usize)> = Vec::new();
                for (sq, (mask, magic, shift, offset)) in es.iter().enumerate() {
                    entries += 1;
                    let rays = ray_squares(sq as u8, dirs);
                    let want_mask: u64 = rays.iter().flat_map(|r| r.iter().take(r.len().saturating_sub(1))).fold(0u64, |m, s| m | (1u64 << s));
                    let bad = |class: &str, detail: String| {
                        sink.push(Violation { prop: "C11".into(), class: class.into(), seed: format!("generator draw {}: {} magic for {}", i, name, sq_name(sq as u8)), path: vec![], detail, extra: json!({"kind": "c11-draw", "entry": {"mask": mask, "magic": magic, "shift": shift, "offset": offset}}) });
                    };
                    if *mask != want_mask {
                        bad("generated-mask-wrong", format!("mask {:#018x}, relevant blockers {:#018x}", mask, want_mask));
                    }
                    if *shift == 0 || *shift > 63 {
                        bad("generated-shift-out-of-range", format!("shift {}", shift));
                        continue;
                    }
                    let len = 1usize << (64 - shift);
                    segs.push((*offset, offset + len, sq));
                    if offset + len > size {
                        bad("generated-segment-outside-table", format!("segment [{}, {}) but table size {}", offset, offset + len, size));
                    }
                    // subsets sharing an index must share the attack set
                    let mut slot: rustc_hash::FxHashMap<usize, u64> = rustc_hash::FxHashMap::default();
                    let mut b = 0u64;
                    loop {
                        subsets += 1;
                        let idx = ((b & mask).wrapping_mul(*magic) >> shift) as usize;
                        let att = expected_slider(&rays, b);
                        match slot.get(&idx) {
                            Some(prev) if *prev != att => {
                                bad("generated-magic-collides", format!("blocker set {:#018x} shares index {} with a set that has another attack set", b, idx));
                                break;
                            }
                            Some(_) => {}
                            None => {
                                slot.insert(idx, att);
                            }
                        }
                        b = b.wrapping_sub(*mask) & mask;
                        if b == 0 {
                            break;
                        }
                    }
                }
                segs.sort();
                for w in segs.windows(2) {
                    if w[0].1 > w[1].0 {
                        sink.push(Violation { prop: "C11".into(), class: "generated-segments-overlap".into(), seed: format!("generator draw {}: {} tables of {} and {}", i, name, sq_name(w[0].2 as u8), sq_name(w[1].2 as u8)), path: vec![], detail: format!("segment [{}, {}) of {} overlaps segment [{}, {}) of {}: lookups of one square can return the other square's attack sets", w[0].0, w[0].1, sq_name(w[0].2 as u8), w[1].0, w[1].1, sq_name(w[1].2 as u8)), extra: json!({"kind": "c11-draw"}) });
                    }
                }
            }
            Ok((entries, subsets))
        })
        .collect();
    let mut e = 0;
    let mut sb = 0;
    for r in results {
        let (a, b) = r?;
        e += a;
        sb += b;
    }
    Ok((k as u64, e, sb))
}

/// Arrangements whose position keys differ in exactly ONE bit.  The reported attack set goes
/// through a cache keyed on the position key; a cache that drops or truncates part of the key is
/// only exposed by two arrangements that agree on the part it keeps.  The key is an XOR of
/// per-(piece, square) constants, read here black-box; for every bit i a set of extra pieces T_i
/// is found by Gaussian elimination over GF(2) (one candidate piece per free square, several
/// assignments of kinds to squares) such that key(Q on d4 + T_i) = key(Q on d4) xor 2^i (checked on
/// real boards).  One generator is asked about the base arrangement and then about all the
/// others, a second one the other way round; every answer is compared with the ray-walking model.
fn key_of_pieces(pieces: &[(Kind, Side, u8)]) -> u64 {
    let mut b = Board::new();
    for &(k, sd, q) in pieces {
        b.put(bb(q), piece_of(k), color_of(sd)).unwrap();
    }
    b.current_position_hash()
}

/// for every key bit, an arrangement = `base` + extra pieces (none on the squares of `base`)
/// whose key differs from the key of `base` in exactly that bit (None where none was found)
fn near_key_solutions(base: &[(Kind, Side, u8)], accept: &dyn Fn(&[(Kind, Side, u8)]) -> bool) -> Vec<Option<Vec<(Kind, Side, u8)>>> {
    let key_of = key_of_pieces;
    let h0 = key_of(&[]);
    let hbase = key_of(base);
    let kinds: Vec<(Kind, Side)> = [Side::White, Side::Black].iter().flat_map(|sd| [Kind::Pawn, Kind::Knight, Kind::Bishop, Kind::Rook, Kind::Queen].into_iter().map(move |k| (k, *sd))).collect();
    let mut solved: Vec<Option<Vec<(Kind, Side, u8)>>> = vec![None; 64];
    for round in 0..60usize {
        if solved.iter().all(|x| x.is_some()) {
            break;
        }
        // one candidate piece per free square
        let cand: Vec<(Kind, Side, u8)> = (0..64u8)
            .filter(|q| !base.iter().any(|b| b.2 == *q))
            .map(|q| {
                // fixed pseudo-random assignment of kinds to squares, different in every round
                let mix = (q as u64 + 1).wrapping_mul(0x9E3779B97F4A7C15).wrapping_add((round as u64 + 1).wrapping_mul(0xD1B54A32D192ED03));
                let mut i = ((mix ^ (mix >> 29)) % kinds.len() as u64) as usize;
                // no pawns on the first / last rank
                if kinds[i].0 == Kind::Pawn && (q / 8 == 0 || q / 8 == 7) {
                    i = (i + 1) % kinds.len();
                }
                (kinds[i].0, kinds[i].1, q)
            })
            .collect();
        // basis[b] = (vector with highest set bit b, combination as a mask over `cand`)
        let mut basis: Vec<Option<(u64, u64)>> = vec![None; 64];
        for (ci, c) in cand.iter().enumerate() {
            let mut v = key_of(&[*c]) ^ h0;
            let mut combo = 1u64 << ci;
            while v != 0 {
                let hb = 63 - v.leading_zeros() as usize;
                match basis[hb] {
                    Some((bv, bc)) => {
                        v ^= bv;
                        combo ^= bc;
                    }
                    None => {
                        basis[hb] = Some((v, combo));
                        break;
                    }
                }
            }
        }
        for bit in 0..64usize {
            if solved[bit].is_some() {
                continue;
            }
            let mut v = 1u64 << bit;
            let mut combo = 0u64;
            while v != 0 {
                let hb = 63 - v.leading_zeros() as usize;
                match basis[hb] {
                    Some((bv, bc)) => {
                        v ^= bv;
                        combo ^= bc;
                    }
                    None => break,
                }
            }
            if v == 0 && combo != 0 {
                let extra: Vec<(Kind, Side, u8)> = cand.iter().enumerate().filter(|(ci, _)| combo >> ci & 1 == 1).map(|(_, c)| *c).collect();
                let mut all = base.to_vec();
                all.extend(extra.iter().copied());
                // the construction is checked on real boards; if the key were not an XOR of
                // per-piece constants this would simply not hold and the bit stays uncovered
                if key_of(&all) ^ hbase == 1u64 << bit && accept(&all) {
                    solved[bit] = Some(all);
                }
            }
        }
    }
    solved
}

pub fn near_key_arrangements(owner: &str, sink: &Sink, rep: &mut Report) {
    const BASE_SQ: u8 = 27; // d4
    let base = [(Kind::Queen, Side::White, BASE_SQ)];
    let solved = near_key_solutions(&base, &|_| true);
    let covered = solved.iter().filter(|x| x.is_some()).count() as u64;
    rep.add("near_key_bits_covered", covered);
    if covered < 64 {
        rep.notes.push(format!("near-key arrangements: only {} of the 64 key bits have a pair of arrangements differing in exactly that bit", covered));
    }
    let to_pos = |pieces: &[(Kind, Side, u8)]| -> Pos {
        let mut p = Pos::empty();
        for &(k, sd, q) in pieces {
            p.sq[q as usize] = Some((k, sd));
        }
        p
    };
    let board_of = |pieces: &[(Kind, Side, u8)]| -> Board {
        let mut b = Board::new();
        for &(k, sd, q) in pieces {
            b.put(bb(q), piece_of(k), color_of(sd)).unwrap();
        }
        b
    };
    let describe = |pieces: &[(Kind, Side, u8)]| pieces.iter().map(|(k, sd, q)| format!("{}{:?}@{}", if *sd == Side::White { "w" } else { "b" }, k, sq_name(*q))).collect::<Vec<_>>().join(" ");
    let others: Vec<(usize, Vec<(Kind, Side, u8)>)> = solved.iter().enumerate().filter_map(|(i, x)| x.clone().map(|v| (i, v))).collect();
    let mut asked = 0u64;
    for order in ["base first", "base last"] {
        let mut g = MoveGenerator::new();
        let mut seq: Vec<(Option<usize>, Vec<(Kind, Side, u8)>)> = others.iter().map(|(i, v)| (Some(*i), v.clone())).collect();
        if order == "base first" {
            seq.insert(0, (None, base.to_vec()));
        } else {
            seq.push((None, base.to_vec()));
        }
        for (bit, pieces) in seq.iter() {
            let b = board_of(pieces);
            let p = to_pos(pieces);
            for side in [Side::White, Side::Black] {
                asked += 1;
                match guarded(|| g.get_attack_targets(&b, color_of(side)).0) {
                    Ok(got) => {
                        let want = p.attack_map(side);
                        if got != want {
                            sink.push(Violation { prop: owner.into(), class: "attack-set-of-an-arrangement-with-a-nearby-key".into(), seed: describe(pieces), path: vec![], detail: format!("one generator asked about arrangements whose keys differ from the key of [{}] in exactly one bit ({}): for [{}] (bit {:?}) colour {:?} it reports {:#018x}, walking the rays gives {:#018x}", describe(&base), order, describe(pieces), bit, side, got, want), extra: json!({"kind": "c11-nearkey"}) });
                        }
                    }
                    Err(e) => sink.push(Violation { prop: owner.into(), class: "attack-query-panics".into(), seed: describe(pieces), path: vec![], detail: e, extra: json!({"kind": "c11-nearkey"}) }),
                }
            }
        }
    }
    rep.add("near_key_attack_queries", asked);
    rep.transitions += asked;
    if owner != "C02" {
        return;
    }
    // the same for the move lists (C02): both kings on the board, the arrangement a consistent
    // position for the colour that is asked
    let mut covered_moves = 0u64;
    let mut move_queries = 0u64;
    for stm in [Side::White, Side::Black] {
        let kbase = [(Kind::Queen, Side::White, BASE_SQ), (Kind::King, Side::White, 0u8), (Kind::King, Side::Black, 55u8)];
        let consistent = |pieces: &[(Kind, Side, u8)]| {
            let mut p = to_pos(pieces);
            p.stm = stm;
            p.is_consistent()
        };
        let sols = near_key_solutions(&kbase, &consistent);
        let list: Vec<(usize, Vec<(Kind, Side, u8)>)> = sols.iter().enumerate().filter_map(|(i, x)| x.clone().map(|v| (i, v))).collect();
        covered_moves += list.len() as u64;
        for order in ["base first", "base last"] {
            let mut g = MoveGenerator::new();
            let mut seq: Vec<(Option<usize>, Vec<(Kind, Side, u8)>)> = list.iter().map(|(i, v)| (Some(*i), v.clone())).collect();
            if order == "base first" {
                seq.insert(0, (None, kbase.to_vec()));
            } else {
                seq.push((None, kbase.to_vec()));
            }
            for (bit, pieces) in seq.iter() {
                let mut p = to_pos(pieces);
                p.stm = stm;
                let mut b = build_board(&p);
                move_queries += 1;
                let mut want: Vec<MoveDesc> = p.legal_moves().iter().map(describe_model).collect();
                want.sort();
                match guarded(|| g.generate_moves(&mut b, color_of(stm))) {
                    Ok(ms) => {
                        let mut got: Vec<MoveDesc> = ms.iter().map(describe_impl).collect();
                        got.sort();
                        if got != want {
                            sink.push(Violation { prop: "C02".into(), class: "move-list-of-a-position-with-a-nearby-key".into(), seed: p.to_fen(), path: vec![], detail: format!("one generator asked about positions whose keys differ from the key of [{}] in exactly one bit ({}): for {} (bit {:?}) it lists {} moves, the rules give {}", describe(&kbase), order, p.to_fen(), bit, got.len(), want.len()), extra: json!({"kind": "c11-nearkey"}) });
                        }
                    }
                    Err(e) => sink.push(Violation { prop: "C02".into(), class: "panic-in-generate_moves(near-key)".into(), seed: p.to_fen(), path: vec![], detail: e, extra: json!({"kind": "c11-nearkey"}) }),
                }
            }
        }
    }
    rep.add("near_key_move_list_queries", move_queries);
    rep.add("near_key_bits_covered_for_move_lists_(both_colours)", covered_moves);
    rep.transitions += move_queries;
}

/// The lookup tables are built when a generator is constructed: generators constructed on threads
/// of rayon pools of every size 1..24 (and 32, 33, 48, 64, 65) answer, for every square, the rook /
/// bishop / queen queries with no blockers, with every relevant blocker square occupied, and with
/// two fixed patterns; compared with the ray walk.
fn generators_built_in_pools(sink: &Sink, rep: &mut Report) {
    let mut asked = 0u64;
    let mut sizes: Vec<usize> = (1..=24).collect();
    sizes.extend([32usize, 33, 48, 64, 65]);
    for size in sizes.iter() {
        let pool = rayon::ThreadPoolBuilder::new().num_threads(*size).build().unwrap();
        let mut g = match guarded(|| pool.install(MoveGenerator::new)) {
            Ok(g) => g,
            Err(e) => {
                sink.push(Violation { prop: "C11".into(), class: "generator-construction-panics".into(), seed: format!("rayon pool of {} threads", size), path: vec![], detail: e, extra: json!({"kind": "c11-pool", "pool": size}) });
                continue;
            }
        };
        for sq in 0..64u8 {
            let rr = ray_squares(sq, &ROOK_DIRS);
            let br = ray_squares(sq, &BISHOP_DIRS);
            let all: u64 = rr.iter().chain(br.iter()).flatten().fold(0u64, |m, s| m | 1u64 << s);
            for occ in [0u64, all, all & 0x55AA55AA55AA55AA, all & 0x0F0F0F0FF0F0F0F0] {
                for (piece, want) in [(Piece::Rook, expected_slider(&rr, occ)), (Piece::Bishop, expected_slider(&br, occ)), (Piece::Queen, expected_slider(&rr, occ) | expected_slider(&br, occ))] {
                    let mut b = Board::new();
                    b.put(bb(sq), piece, Color::White).unwrap();
                    let mut x = occ;
                    while x != 0 {
                        let s = x.trailing_zeros() as u8;
                        x &= x - 1;
                        b.put(bb(s), Piece::Knight, Color::Black).unwrap();
                    }
                    asked += 1;
                    match guarded(|| g.get_attack_targets(&b, Color::White).0) {
                        Ok(got) if got == want => {}
                        other => {
                            sink.push(Violation { prop: "C11".into(), class: "generator-built-in-a-pool-answers-wrongly".into(), seed: format!("generator constructed inside a rayon pool of {} threads: white {:?} on {} with blockers {:#018x}", size, piece, sq_name(sq), occ), path: vec![], detail: format!("engine {:?}, ray walk {:#018x}", other.map(|v| format!("{:#018x}", v)), want), extra: json!({"kind": "c11-pool", "pool": size}) });
                        }
                    }
                }
            }
        }
        if g.cache_entry_count() > 0 {
            g = MoveGenerator::new();
        }
        let _ = &g;
    }
    rep.add("pool_sizes_in_which_a_generator_was_built", sizes.len() as u64);
    rep.add("queries_to_generators_built_in_pools", asked);
    rep.transitions += asked;
}
