//! Properties decided by the lock-step walk: C01 C02 C03 C04 C05 C06 C12 C13 C19.

use crate::bind::*;
use crate::refchess::*;
use crate::report::{Report, Sink, Violation};
use crate::seeds::*;
use crate::walk::*;
use crate::Args;
use chess::move_generator::MoveGenerator;
use serde_json::json;

fn flags_for(prop: &str) -> u32 {
    match prop {
        "C01" => F01,
        "C02" => F02,
        "C03" => F03,
        // C04 also runs the annotated-generation and notation queries to check that they leave
        // the board untouched (only C04 violations are reported by a C04 run)
        "C04" => F04 | F06 | F13,
        "C05" => F05,
        "C06" => F06,
        "C12" => F12,
        "C13" => F13,
        "C19" => F19,
        _ => 0,
    }
}

fn mandatory_for(prop: &str) -> Vec<&'static str> {
    let moves = vec![
        "castle_white_kingside",
        "castle_white_queenside",
        "castle_black_kingside",
        "castle_black_queenside",
        "en_passant_captures",
        "double_steps",
        "promo_q",
        "promo_n",
        "promo_r_capture",
        "promo_b_capture",
        "captures",
        "pin_filter_rejections",
    ];
    match prop {
        "C01" | "C03" | "C04" | "C19" | "C12" | "C05" | "C02" => moves,
        "C06" => vec!["checkmated_states", "stalemated_states", "states_in_check", "checking_moves", "mating_moves", "castle_white_kingside", "en_passant_captures", "promo_q"],
        "C13" => vec!["labels_checked", "labels_needing_disambiguation", "castle_white_queenside", "promo_q_capture", "en_passant_captures"],
        _ => vec![],
    }
}

struct Plan {
    items: Vec<Item>,
    samples: Vec<serde_json::Value>,
    bounds: serde_json::Value,
}

fn family_items(name: &str, fam: Vec<Pos>, depth: u32, out: &mut Vec<Item>) -> usize {
    let n = fam.len();
    for p in fam {
        let fen = p.to_fen();
        out.push(Item { seed_name: name.to_string(), seed_fen: fen, root: p, prefix: vec![], remaining: depth });
    }
    n
}

fn plan(prop: &str, tier: &str) -> Plan {
    let thorough = tier == "thorough";
    let mut items = Vec::new();
    let mut samples = Vec::new();
    let mut seed_bounds = Vec::new();
    // per-property depth adjustment relative to the seed table (heavier oracles walk shallower)
    let adj: i32 = match prop {
        "C06" | "C13" | "C04" => 0,
        _ => 0,
    };
    for sd in TREE_SEEDS {
        let d = (depth_for(sd, tier) as i32 + adj).max(0) as u32;
        let root = Pos::from_fen(sd.fen).unwrap();
        let split = if d >= 3 { 2 } else if d == 2 { 1 } else { 0 };
        let its = items_for(sd.name, sd.fen, &root, d, split);
        seed_bounds.push(json!({"seed": sd.name, "depth": d, "work_items": its.len()}));
        if samples.len() < 12 {
            samples.push(json!({"seed": sd.name, "fen": sd.fen, "depth": d, "forces": sd.why}));
        }
        items.extend(its);
    }
    let mut fams = Vec::new();
    let fam_depth = |quick_d: u32, thorough_d: u32| if thorough { thorough_d } else { quick_d };
    match prop {
        "C01" | "C03" | "C12" | "C06" | "C04" | "C19" | "C13" | "C02" | "C05" => {
            let heavy = matches!(prop, "C06" | "C13" | "C04");
            let cm = castle_matrix(thorough && !heavy);
            let d = fam_depth(0, if heavy { 0 } else { 1 });
            let n = family_items("castle-matrix", cm, d, &mut items);
            fams.push(json!({"family": "castle-matrix", "members": n, "depth": d, "complete": thorough && !heavy}));
            let em = ep_matrix(thorough && !heavy);
            let d = fam_depth(0, if heavy { 0 } else { 1 });
            let n = family_items("ep-matrix", em, d, &mut items);
            fams.push(json!({"family": "ep-matrix", "members": n, "depth": d, "complete": thorough && !heavy}));
        }
        _ => {}
    }
    if thorough && matches!(prop, "C01" | "C03" | "C12") {
        let tm = three_men();
        let n = family_items("three-men", tm, 0, &mut items);
        fams.push(json!({"family": "three-men", "members": n, "depth": 0, "complete": true}));
    }
    if let Some(it) = items.iter().rev().find(|i| i.seed_name == "ep-matrix") {
        samples.push(json!({"family": "ep-matrix", "member": it.seed_fen}));
    }
    if let Some(it) = items.iter().rev().find(|i| i.seed_name == "castle-matrix") {
        samples.push(json!({"family": "castle-matrix", "member": it.seed_fen}));
    }
    Plan { items, samples, bounds: json!({"tree_seeds": seed_bounds, "families": fams}) }
}

pub fn run(a: &Args) -> i32 {
    let prop = a.prop.as_str();
    let mut rep = Report::new(prop, &a.tier, a.seed);
    let sink = Sink::new(6);
    let mut pl = plan(prop, &a.tier);
    // VERIF_SEED only rotates the dispatch order of independent work items (never the set)
    if a.seed != 0 && !pl.items.is_empty() {
        let k = (a.seed as usize) % pl.items.len();
        pl.items.rotate_left(k);
    }
    let cfg = WalkCfg {
        owner: prop.to_string(),
        flags: flags_for(prop),
        dedup: prop != "C04",
        gen_renew: 60_000,
        threads: a.threads,
        wall_cap_s: if a.tier == "quick" { 240 } else { 3 * 3600 },
    };
    let w = Walker::new(cfg, &sink);
    let n = w.run(&pl.items);
    fill_report(&mut rep, &w, &n);
    rep.samples = pl.samples;
    rep.bounds = pl.bounds;
    rep.mandatory = mandatory_for(prop).into_iter().map(|s| s.to_string()).collect();
    rep.rule = "every legal move sequence up to the per-seed depth from every tree seed, plus every member of the generated families; states deduplicated on the exact canonical key (placement, side, rights, ep target) except for C04, which walks un-merged paths on one board; at every state the enabled oracle compares the implementation with the reference model".to_string();
    rep.assumptions = vec![
        "reference model refchess is correct: it reproduces the published perft tables (re-checked at the start of this run)".to_string(),
        "positions outside the listed seeds / families / depths are not covered".to_string(),
        "the build-time random tables are the ones this build produced".to_string(),
    ];
    if prop == "C02" {
        collision_pass(&w, &sink, &mut rep);
    }
    rep.finish(&sink)
}

/// C02 part 2: for every pair of different positions that the walk saw under one key, ask a
/// brand-new generator about P and then Q and compare with another brand-new generator asked
/// about Q only (moves for the side to move and attack maps for both colours).
fn collision_pass(w: &Walker, sink: &Sink, rep: &mut Report) {
    let pairs = w.collisions.lock().unwrap().clone();
    let mut done = 0u64;
    for (p, q) in pairs.iter().take(60) {
        for (first, second) in [(p, q), (q, p)] {
            if let Some(v) = check_pair(first, second) {
                sink.push(v);
            }
            done += 1;
        }
    }
    rep.add("colliding_pairs_replayed_in_both_orders", done);
    if pairs.len() > 60 {
        rep.notes.push(format!("{} colliding pairs recorded, first 60 replayed on new generators", pairs.len()));
    }
}

pub fn check_pair(first: &Pos, second: &Pos) -> Option<Violation> {
    if !first.is_consistent() || !second.is_consistent() {
        eprintln!("MACHINERY-ERROR: inconsistent position in a colliding pair");
        std::process::exit(2);
    }
    let mut bf = build_board(&first);
    let mut bs = build_board(second);
    let mut g = MoveGenerator::new();
    let mut h = MoveGenerator::new();
    let r = guarded(|| {
        let _ = g.generate_moves(&mut bf, color_of(first.stm));
        let _ = g.get_attack_targets(&bf, color_of(Side::White));
        let _ = g.get_attack_targets(&bf, color_of(Side::Black));
        let served = g.generate_moves(&mut bs, color_of(second.stm));
        let own = h.generate_moves(&mut bs, color_of(second.stm));
        let mut a: Vec<MoveDesc> = served.iter().map(describe_impl).collect();
        let mut b: Vec<MoveDesc> = own.iter().map(describe_impl).collect();
        a.sort();
        b.sort();
        let mut diffs = Vec::new();
        if a != b {
            diffs.push(format!("moves: after-history {:?} vs brand-new {:?}", a.iter().map(desc_str).collect::<Vec<_>>(), b.iter().map(desc_str).collect::<Vec<_>>()));
        }
        for side in [Side::White, Side::Black] {
            let x = g.get_attack_targets(&bs, color_of(side)).0;
            let y = h.get_attack_targets(&bs, color_of(side)).0;
            if x != y {
                diffs.push(format!("attacks of {:?}: after-history {:#018x} vs brand-new {:#018x}", side, x, y));
            }
        }
        diffs
    });
    match r {
        Ok(d) if d.is_empty() => None,
        Ok(d) => Some(Violation {
            prop: "C02".to_string(),
            class: "served-another-positions-answer".to_string(),
            seed: second.to_fen(),
            path: vec![],
            detail: format!("generator first asked about {} then about {} (same key): {}", first.to_fen(), second.to_fen(), d.join("; ")),
            extra: json!({"kind": "pair", "first": first.to_fen(), "second": second.to_fen()}),
        }),
        Err(p) => Some(Violation {
            prop: "C02".to_string(),
            class: "panic-after-history".to_string(),
            seed: second.to_fen(),
            path: vec![],
            detail: format!("generator first asked about {} then about {}: {}", first.to_fen(), second.to_fen(), p),
            extra: json!({"kind": "pair", "first": first.to_fen(), "second": second.to_fen()}),
        }),
    }
}

/// Replay one recorded violation without the explorer's search: rebuild the seed, follow the
/// recorded path with a single work item, evaluate the owning oracle there.
pub fn replay(v: &serde_json::Value) -> i32 {
    let prop = v["property"].as_str().unwrap_or("").to_string();
    replay_with_flags(v, &prop, flags_for(&prop))
}

pub fn replay_with_flags(v: &serde_json::Value, prop: &str, flags: u32) -> i32 {
    let class = v["class"].as_str().unwrap_or("");
    if v["extra"]["kind"].as_str() == Some("pair") {
        let first = Pos::from_fen(v["extra"]["first"].as_str().unwrap_or("")).unwrap();
        let second = Pos::from_fen(v["extra"]["second"].as_str().unwrap_or("")).unwrap();
        let a = check_pair(&first, &second);
        let b = check_pair(&first, &second);
        return match (a, b) {
            (Some(x), Some(y)) if x.detail == y.detail => {
                println!("REPRODUCED property={} class={} :: {}", prop, x.class, x.detail);
                1
            }
            (None, None) => {
                println!("NOT-REPRODUCED property={} class={}", prop, class);
                0
            }
            _ => {
                eprintln!("MACHINERY-ERROR: replay is not deterministic");
                2
            }
        };
    }
    let seed_fen = v["seed"].as_str().unwrap_or("");
    let root = match Pos::from_fen(seed_fen) {
        Ok(p) => p,
        Err(e) => {
            eprintln!("MACHINERY-ERROR: {}", e);
            return 2;
        }
    };
    let mut pos = root.clone();
    let mut prefix = Vec::new();
    if let Some(arr) = v["path"].as_array() {
        for t in arr {
            let t = t.as_str().unwrap_or("");
            let m = match pos.legal_moves().into_iter().find(|m| uci(m) == t) {
                Some(m) => m,
                None => {
                    eprintln!("MACHINERY-ERROR: replay path move {} is not legal in {}", t, pos.to_fen());
                    return 2;
                }
            };
            pos = pos.make(&m);
            prefix.push(m);
        }
    }
    let mut outcomes = Vec::new();
    for _ in 0..2 {
        let sink = Sink::new(50);
        let cfg = WalkCfg { owner: prop.to_string(), flags, dedup: false, gen_renew: 60_000, threads: 1, wall_cap_s: 0 };
        let w = Walker::new(cfg, &sink);
        // visit every node along the path (so that history-dependent effects are rebuilt), then the end
        let mut items = Vec::new();
        for k in 0..=prefix.len() {
            items.push(Item { seed_name: "replay".to_string(), seed_fen: seed_fen.to_string(), root: root.clone(), prefix: prefix[..k].to_vec(), remaining: 0 });
        }
        let _ = w.run(&items);
        let got = sink.take();
        let mut hit: Vec<String> = Vec::new();
        for (_k, (_n, vs)) in got {
            for x in vs {
                if x.class == class {
                    hit.push(format!("{} :: {}", x.path.join(" "), x.detail));
                }
            }
        }
        hit.sort();
        outcomes.push(hit);
    }
    if outcomes[0] != outcomes[1] {
        eprintln!("MACHINERY-ERROR: replay is not deterministic");
        return 2;
    }
    if outcomes[0].is_empty() {
        println!("NOT-REPRODUCED property={} class={}", prop, class);
        0
    } else {
        println!("REPRODUCED property={} class={} :: {}", prop, class, outcomes[0][0]);
        1
    }
}
