//! Properties decided by the lock-step walk: C01 C02 C03 C04 C05 C06 C12 C13 C19.

use crate::bind::*;
use crate::refchess::*;
use crate::report::{Report, Sink, Violation};
use crate::seeds::*;
use crate::walk::*;
use crate::Args;
use chess::move_generator::MoveGenerator;
use serde_json::json;

fn flags_for(prop: &str) -> u32 {
    match prop {
        "C01" => F01,
        "C02" => F02,
        "C03" => F03,
        // C04 also runs the annotated-generation and notation queries to check that they leave
        // the board untouched (only C04 violations are reported by a C04 run)
        "C04" => F04 | F06 | F13,
        "C05" => F05,
        "C06" => F06,
        "C12" => F12,
        "C13" => F13,
        "C19" => F19,
        _ => 0,
    }
}

fn mandatory_for(prop: &str) -> Vec<&'static str> {
    let moves = vec![
        "castle_white_kingside",
        "castle_white_queenside",
        "castle_black_kingside",
        "castle_black_queenside",
        "en_passant_captures",
        "double_steps",
        "promo_q",
        "promo_n",
        "promo_r_capture",
        "promo_b_capture",
        "captures",
        "pin_filter_rejections",
    ];
    match prop {
        "C01" | "C03" | "C04" | "C19" | "C12" | "C05" | "C02" => moves,
        "C06" => vec!["checkmated_states", "stalemated_states", "states_in_check", "checking_moves", "mating_moves", "castle_white_kingside", "en_passant_captures", "promo_q"],
        "C13" => vec!["labels_checked", "labels_needing_disambiguation", "castle_white_queenside", "promo_q_capture", "en_passant_captures"],
        _ => vec![],
    }
}

struct Plan {
    items: Vec<Item>,
    samples: Vec<serde_json::Value>,
    bounds: serde_json::Value,
}

fn family_items(name: &str, fam: Vec<Pos>, depth: u32, out: &mut Vec<Item>) -> usize {
    let n = fam.len();
    for p in fam {
        let fen = p.to_fen();
        out.push(Item { seed_name: name.to_string(), seed_fen: fen, root: p, prefix: vec![], remaining: depth });
    }
    n
}

/// Games replayed by `apply` alone in which ply number p is a double pawn step (its reply must
/// clear the target) or a rook move that loses a castling right, for every p within 3 of the
/// history lengths 256, 512, 1024 and 2048 (both kinds; a kind is skipped where it is not legal).
fn special_long_games(items: &mut Vec<Item>) -> usize {
    let start = Pos::startpos();
    let mut n = 0;
    for b in [256usize, 512, 1024, 2048] {
        for p in b - 3..=b + 3 {
            for kind in [0u8, 1] {
                if let Some(pre) = preroll_game_special(&start, p + 6, Some((p, kind))) {
                    items.push(Item { seed_name: format!("long-replay-special-k{}-p{}", kind, p), seed_fen: start.to_fen(), root: start.clone(), prefix: pre, remaining: 0 });
                    n += 1;
                }
            }
        }
    }
    n
}

fn plan(prop: &str, tier: &str) -> Plan {
    let thorough = tier == "thorough";
    let mut items = Vec::new();
    let mut samples = Vec::new();
    let mut seed_bounds = Vec::new();
    // per-property depth adjustment relative to the seed table (heavier oracles walk shallower)
    let adj: i32 = match prop {
        "C06" | "C13" | "C04" => 0,
        _ => 0,
    };
    for sd in TREE_SEEDS {
        // light oracles walk the perft-suite seeds one ply deeper in the quick tier
        let light = matches!(prop, "C01" | "C02" | "C03" | "C05" | "C12");
        let bump = if light && matches!(sd.name, "startpos" | "kiwipete" | "pos3" | "pos4" | "pos4m" | "pos5" | "pos6") { 1 } else { 0 };
        let mut d = (depth_for(sd, tier) as i32 + adj + bump).max(0) as u32;
        if sd.name == "promo-vs-rooks" && matches!(prop, "C04" | "C13" | "C19" | "C06") {
            // un-merged (C04) or heavy oracles: this deliberately deep seed is walked 4 (6) plies only
            d = d.min(if thorough { 6 } else { 4 });
        }
        let root = Pos::from_fen(sd.fen).unwrap();
        let split = if d >= 3 { 2 } else if d == 2 { 1 } else { 0 };
        let its = items_for(sd.name, sd.fen, &root, d, split);
        seed_bounds.push(json!({"seed": sd.name, "depth": d, "work_items": its.len()}));
        if samples.len() < 12 {
            samples.push(json!({"seed": sd.name, "fen": sd.fen, "depth": d, "forces": sd.why}));
        }
        items.extend(its);
    }
    let mut fams = Vec::new();
    let fam_depth = |quick_d: u32, thorough_d: u32| if thorough { thorough_d } else { quick_d };
    match prop {
        "C01" | "C03" | "C12" | "C06" | "C04" | "C19" | "C13" | "C02" | "C05" => {
            let heavy = matches!(prop, "C06" | "C13" | "C04");
            let cm = castle_matrix(thorough && !heavy);
            let d = fam_depth(0, if heavy { 0 } else { 1 });
            let n = family_items("castle-matrix", cm, d, &mut items);
            fams.push(json!({"family": "castle-matrix", "members": n, "depth": d, "complete": thorough && !heavy}));
            let ed = ep_discovery();
            let n = family_items("ep-discovery", ed, 0, &mut items);
            fams.push(json!({"family": "ep-discovery", "members": n, "depth": 0, "complete": true}));
            let em = ep_matrix(thorough && !heavy);
            let d = fam_depth(0, if heavy { 0 } else { 1 });
            let n = family_items("ep-matrix", em, d, &mut items);
            fams.push(json!({"family": "ep-matrix", "members": n, "depth": d, "complete": thorough && !heavy}));
        }
        _ => {}
    }
    if matches!(prop, "C01" | "C03" | "C12") {
        let tm = three_men();
        let n = family_items("three-men", tm, 0, &mut items);
        fams.push(json!({"family": "three-men", "members": n, "depth": 0, "complete": true}));
    }
    // C04 / C12: trees at the end of long games (history depths around 255 / 256 / 512 and
    // beyond), the whole game unwound afterwards. Two roots: the starting position, and one from
    // which an en-passant capture is two plies away for either side at the end of the game.
    if matches!(prop, "C04" | "C12") {
        let start = Pos::startpos();
        let eproot = Pos::from_fen(LONG_GAME_EP_ROOT).unwrap();
        let lens: Vec<usize> = vec![250, 253, 254, 255, 256, 257, 300, 520];
        let ep_lens: Vec<usize> = vec![250, 251, 252, 253, 254, 255, 256, 257, 509, 510, 511, 512, 513];
        let tail = if thorough { 3 } else { 2 };
        let mut n = 0;
        for len in lens.iter() {
            items.push(Item { seed_name: format!("long-game-{}", len), seed_fen: start.to_fen(), root: start.clone(), prefix: preroll_game(*len), remaining: tail });
            n += 1;
        }
        for len in ep_lens.iter() {
            items.push(Item { seed_name: format!("long-game-ep-{}", len), seed_fen: eproot.to_fen(), root: eproot.clone(), prefix: preroll_game_from(&eproot, *len), remaining: tail });
            n += 1;
        }
        // very long games that open with double steps (an en-passant target early in the history),
        // unwound completely: history depths across 1024 and 2048
        for len in [1300usize, 2300] {
            items.push(Item { seed_name: format!("long-game-e4e5-{}", len), seed_fen: start.to_fen(), root: start.clone(), prefix: preroll_game_opening(&["e2e4", "e7e5"], len), remaining: 1 });
            n += 1;
        }
        n += special_long_games(&mut items);
        fams.push(json!({"family": "trees at the end of long games, games unwound afterwards", "members": n, "game_lengths_from_start": lens, "game_lengths_from_ep_root": ep_lens, "ep_root": LONG_GAME_EP_ROOT, "tail_depth": tail, "merged_with_other_states": false}));
    }
    // C03 / C05: long games replayed with nothing but `apply` touching the board, compared with the
    // model after every ply; openings with double steps so that an en-passant target exists early
    // and 256 / 512 plies pass after it
    if matches!(prop, "C03" | "C05") {
        let start = Pos::startpos();
        let mut n = 0;
        n += special_long_games(&mut items);
        for (nm, opening, len) in [("e4-e5", vec!["e2e4", "e7e5"], 600usize), ("nf3-d5-d4-c4", vec!["g1f3", "d7d5", "f3g1", "d5d4", "c2c4"], 600), ("plain", vec![], 300), ("e4-e5", vec!["e2e4", "e7e5"], 1300), ("e4-e5", vec!["e2e4", "e7e5"], 2300)] {
            let pre = preroll_game_opening(&opening, len);
            items.push(Item { seed_name: format!("long-replay-{}-{}", nm, len), seed_fen: start.to_fen(), root: start.clone(), prefix: pre, remaining: 1 });
            n += 1;
        }
        fams.push(json!({"family": "long games replayed by apply alone, compared with the model after every ply", "members": n, "lengths": [600, 600, 300, 1300, 2300], "plus": "games in which ply p is a double step or a right-losing rook move, p within 3 of 256 / 512 / 1024 / 2048"}));
    }
    // C05: the key must not depend on the clocks either — roots pre-loaded with half-move clocks
    // around 100 and ply counts around 255 (the key is compared with a direct set-up at clock 0)
    if prop == "C05" {
        let mut n = 0;
        for name in ["startpos", "kiwipete", "castle-base-w", "ep-legal-both", "krk"] {
            let sd = TREE_SEEDS.iter().find(|s| s.name == name).unwrap();
            for (half, ply) in [(99u32, 0u32), (100, 0), (101, 0), (150, 0), (0, 254), (0, 256), (99, 300)] {
                let mut p = Pos::from_fen(sd.fen).unwrap();
                p.halfmove = half;
                p.ply = if (ply % 2 == 1) == (p.stm == Side::Black) { ply } else { ply + 1 };
                let fen = p.to_fen();
                let nm: &'static str = Box::leak(format!("{}@half{}ply{}", name, half, ply).into_boxed_str());
                let ff: &'static str = Box::leak(fen.into_boxed_str());
                // (not merged with the clock-free states: these items carry their own seed name and
                // the canonical key has no clocks, so they run first, before the tree seeds' items)
                let mut its = items_for(nm, ff, &p, 2, 0);
                n += its.len();
                its.append(&mut items);
                items = its;
            }
        }
        fams.push(json!({"family": "clock-preloaded roots (C05)", "members": n, "depth": 2}));
    }
    // C01 / C06 / C13: a double step that gives check and can only be answered by capturing en passant
    if matches!(prop, "C01" | "C06" | "C13") {
        let (after, before) = ep_only_reply();
        let na = family_items("ep-only-reply", after, 0, &mut items);
        let nb = family_items("ep-only-reply(before the double step)", before, 0, &mut items);
        fams.push(json!({"family": "ep-only-reply (double step gives check, en passant is the only legal reply)", "members_after_the_step": na, "members_before_the_step": nb, "depth": 0, "complete": true, "material": "K+P+one piece against K+P"}));
    }
    // trees at the end of long games with an en-passant capture pending (ply counts beyond 255)
    if matches!(prop, "C19" | "C01" | "C03") {
        let eproot = Pos::from_fen(LONG_GAME_EP_ROOT).unwrap();
        let mut n = 0;
        for len in [253usize, 254, 255, 256, 300, 511, 512] {
            items.push(Item { seed_name: format!("long-game-ep-{}", len), seed_fen: eproot.to_fen(), root: eproot.clone(), prefix: preroll_game_from(&eproot, len), remaining: 2 });
            n += 1;
        }
        fams.push(json!({"family": "trees at the end of long games with an en-passant capture two plies away", "members": n, "lengths": [253, 254, 255, 256, 300, 511, 512]}));
    }
    // castle-shaped moves of rooks and queens (the text e8g8 is not always a castle)
    if matches!(prop, "C19" | "C01" | "C03") {
        let fam = castle_shaped_moves();
        let n = family_items("castle-shaped-moves", fam, 0, &mut items);
        fams.push(json!({"family": "castle-shaped moves (rook / queen on e1 or e8 sliding two files while castling rights exist)", "members": n, "depth": 0, "complete": true}));
    }
    // sixteen men with two or three queens against a king two squares from theirs
    if matches!(prop, "C01" | "C06") {
        let fam = crowded_armies();
        let fam: Vec<Pos> = if prop == "C06" && !thorough { fam.into_iter().step_by(8).collect() } else { fam };
        let n = family_items("crowded-armies", fam, 0, &mut items);
        fams.push(json!({"family": "crowded armies (16 men with 2 or 3 queens, the other king two squares from theirs)", "members": n, "depth": 0}));
    }
    // two pawns capture-promoting on one square, exactly one of them pinned
    if matches!(prop, "C01" | "C02") {
        let fam = convergent_promotions();
        let n = family_items("convergent-promotions", fam, 0, &mut items);
        fams.push(json!({"family": "convergent capture-promotions, exactly one pawn pinned", "members": n, "depth": 0, "complete": true, "material": "K+2P v K+target piece+pinning piece"}));
    }
    // C06 / C13: the half-move clock must not influence check / mate annotations and labels —
    // every tree seed and every position one ply from it, with 98 and 99 plies on the clock
    // (a quiet mating move that completes the 100th ply is still mate)
    if matches!(prop, "C06" | "C13") {
        let mut n = 0;
        let mut seen = std::collections::HashSet::new();
        for sd in TREE_SEEDS {
            let root = Pos::from_fen(sd.fen).unwrap();
            let mut cands = vec![root.clone()];
            for m in root.legal_moves() {
                cands.push(root.make(&m));
            }
            for c in cands {
                if !seen.insert(canon(&c)) {
                    continue;
                }
                for half in [98u32, 99] {
                    let mut p = c.clone();
                    p.halfmove = half;
                    p.ply = if p.stm == Side::White { 200 } else { 201 };
                    items.push(Item { seed_name: format!("{}@clock{}", sd.name, half), seed_fen: p.to_fen(), root: p, prefix: vec![], remaining: 0 });
                    n += 1;
                }
            }
        }
        fams.push(json!({"family": "clock-preloaded positions (half-move clock 98 / 99), depth 0", "members": n}));
    }
    // C13: move lists longer than 128 entries with many like pieces
    if prop == "C13" {
        let fam: Vec<Pos> = many_queens().into_iter().filter(|p| p.is_consistent()).collect();
        let n = family_items("many-queens", fam, 1, &mut items);
        fams.push(json!({"family": "many-queens (218 legal moves, nine queens; and the colour-swapped image)", "members": n, "depth": 1}));
    }
    // C06: terminal family — mates and stalemates of king + one adjacent pawn (free, blocked or pinned)
    if prop == "C06" {
        let ks: Vec<Sq> = if thorough { vec![0, 1, 8, 7, 6, 15, 56, 57, 48, 63, 62, 55] } else { vec![0, 7, 56, 63] };
        let fam = terminal_family(&ks);
        let n = family_items("terminal-family", fam, 0, &mut items);
        fams.push(json!({"family": "terminal-family (king + adjacent pawn, mated or stalemated)", "members": n, "mover_king_squares": ks.len()}));
    }
    // playout seeds: positions deep into deterministic long games (several promoted pieces etc.)
    {
        let heavy = matches!(prop, "C04" | "C06" | "C13");
        let light = matches!(prop, "C01" | "C02" | "C03" | "C05" | "C12" | "C19");
        let (n, plies, every, d) = if thorough {
            if light {
                (96, 240, 4, 2)
            } else {
                (32, 240, 6, if heavy { 1 } else { 2 })
            }
        } else if light {
            (64, 200, 5, 1)
        } else {
            (24, 200, 10, 1)
        };
        let ps = playout_seeds(n, plies, every);
        let cnt = ps.len();
        let mut promoted = 0;
        for (name, p) in ps {
            let queens = p.sq.iter().filter(|x| matches!(x, Some((Kind::Queen, _)))).count();
            let knights = p.sq.iter().filter(|x| matches!(x, Some((Kind::Knight, _)))).count();
            let rooks = p.sq.iter().filter(|x| matches!(x, Some((Kind::Rook, _)))).count();
            let bishops = p.sq.iter().filter(|x| matches!(x, Some((Kind::Bishop, _)))).count();
            if queens > 2 || knights > 4 || rooks > 4 || bishops > 4 {
                promoted += 1;
            }
            let fen = p.to_fen();
            let nm: &'static str = Box::leak(name.into_boxed_str());
            let ff: &'static str = Box::leak(fen.into_boxed_str());
            items.extend(items_for(nm, ff, &p, d, if d >= 2 { 1 } else { 0 }));
        }
        fams.push(json!({"family": "playout-seeds", "members": cnt, "depth": d, "members_with_more_pieces_of_a_kind_than_the_initial_array": promoted, "rule": "deterministic long games from 4 starts, sampled every few plies"}));
    }
    if let Some(it) = items.iter().rev().find(|i| i.seed_name == "ep-matrix") {
        samples.push(json!({"family": "ep-matrix", "member": it.seed_fen}));
    }
    if let Some(it) = items.iter().rev().find(|i| i.seed_name == "castle-matrix") {
        samples.push(json!({"family": "castle-matrix", "member": it.seed_fen}));
    }
    Plan { items, samples, bounds: json!({"tree_seeds": seed_bounds, "families": fams}) }
}

pub fn run(a: &Args) -> i32 {
    let prop = a.prop.as_str();
    let mut rep = Report::new(prop, &a.tier, a.seed);
    let sink = Sink::new(6);
    let mut pl = plan(prop, &a.tier);
    // VERIF_SEED only rotates the dispatch order of independent work items (never the set)
    if a.seed != 0 && !pl.items.is_empty() {
        let k = (a.seed as usize) % pl.items.len();
        pl.items.rotate_left(k);
    }
    let cfg = WalkCfg {
        owner: prop.to_string(),
        flags: flags_for(prop),
        dedup: prop != "C04",
        gen_renew: 60_000,
        threads: a.threads,
        wall_cap_s: if a.tier == "quick" { 240 } else { 3 * 3600 },
    };
    let w = Walker::new(cfg, &sink);
    let n = w.run(&pl.items);
    fill_report(&mut rep, &w, &n);
    rep.samples = pl.samples;
    rep.bounds = pl.bounds;
    rep.mandatory = mandatory_for(prop).into_iter().map(|s| s.to_string()).collect();
    rep.rule = "every legal move sequence up to the per-seed depth from every tree seed, plus every member of the generated families; states deduplicated on the exact canonical key (placement, side, rights, ep target) except for C04, which walks un-merged paths on one board; at every state the enabled oracle compares the implementation with the reference model".to_string();
    rep.assumptions = vec![
        "reference model refchess is correct: it reproduces the published perft tables (re-checked at the start of this run)".to_string(),
        "positions outside the listed seeds / families / depths are not covered".to_string(),
        "the build-time random tables are the ones this build produced".to_string(),
    ];
    if prop == "C02" {
        collision_pass(&w, &sink, &mut rep);
        single_generator_pass(&w, &sink, &mut rep, if a.tier == "thorough" { 1_500_000 } else { 450_000 });
    }
    if prop == "C02" {
        // arrangements whose keys differ in exactly one bit, put to one generator (see c11.rs)
        crate::props::c11::near_key_arrangements("C02", &sink, &mut rep);
    }
    if prop == "C02" || prop == "C06" {
        twin_pass(prop, &w, &sink, &mut rep, a.threads, if a.tier == "thorough" { 2_000_000 } else { 500_000 });
    }
    if prop == "C06" {
        single_generator_verdict_pass(&w, &sink, &mut rep, if a.tier == "thorough" { 1_500_000 } else { 450_000 });
    }
    if prop == "C04" || prop == "C12" {
        // deep graph DFS: paths of hundreds of plies on one board, every prefix undone in reverse
        use rayon::prelude::*;
        let max_states = if a.tier == "thorough" { 400_000 } else { 40_000 };
        let res: Vec<(u64, u64, u64, u64)> = DEEP_SEEDS.par_iter().map(|(n, f)| deep_paths(prop, n, f, 250, max_states, prop == "C04", prop == "C12", &sink)).collect();
        let mut longest = 0;
        for (st, tr, lg, un) in res {
            rep.states += st;
            rep.transitions += tr;
            rep.traces += 1;
            rep.add("deep_path_states", st);
            rep.add("deep_path_undo_comparisons", un);
            longest = longest.max(lg);
        }
        rep.counters.insert("deep_path_longest_plies".into(), longest);
        rep.mandatory.push("deep_path_states".into());
        rep.samples.push(json!({"deep_graph_dfs": DEEP_SEEDS.iter().map(|s| s.0).collect::<Vec<_>>(), "path_cap": 250, "state_cap_per_seed": max_states, "longest_path": longest}));
        rep.notes.push(format!("deep graph DFS: bounded to the first {} canonical states per seed in depth-first order and to paths of 250 plies (a stated bound, not full coverage of those graphs)", max_states));
    }
    if prop == "C05" {
        c05_constants(&sink, &mut rep);
        c05_setup_orders(&sink, &mut rep);
        crate::props::c17::c05_keys_under_registration(&sink, &mut rep, if a.tier == "thorough" { 11 } else { 9 });
        rep.mandatory.push("keys_compared_on_boards_with_registered_positions".into());
        rep.mandatory.push("constant_pairs_compared".into());
        rep.mandatory.push("set_up_orders_compared".into());
        if a.tier == "thorough" {
            if let Err(e) = crate::draws::run_draws("C05", 4, &mut rep, &sink) {
                eprintln!("MACHINERY-ERROR: {}", e);
                return 2;
            }
        }
    }
    rep.finish(&sink)
}

/// C02 part 2: for every pair of different positions that the walk saw under one key, ask a
/// brand-new generator about P and then Q and compare with another brand-new generator asked
/// about Q only (moves for the side to move and attack maps for both colours).
fn collision_pass(w: &Walker, sink: &Sink, rep: &mut Report) {
    let pairs = w.collisions.lock().unwrap().clone();
    let mut done = 0u64;
    for (p, q) in pairs.iter().take(60) {
        for (first, second) in [(p, q), (q, p)] {
            if let Some(v) = check_pair(first, second) {
                sink.push(v);
            }
            done += 1;
        }
    }
    rep.add("colliding_pairs_replayed_in_both_orders", done);
    if pairs.len() > 60 {
        rep.notes.push(format!("{} colliding pairs recorded, first 60 replayed on new generators", pairs.len()));
    }
}

pub fn check_pair(first: &Pos, second: &Pos) -> Option<Violation> {
    if !first.is_consistent() || !second.is_consistent() {
        eprintln!("MACHINERY-ERROR: inconsistent position in a colliding pair");
        std::process::exit(2);
    }
    let mut bf = build_board(&first);
    let mut bs = build_board(second);
    let mut g = MoveGenerator::new();
    let mut h = MoveGenerator::new();
    let r = guarded(|| {
        let _ = g.generate_moves(&mut bf, color_of(first.stm));
        let _ = g.get_attack_targets(&bf, color_of(Side::White));
        let _ = g.get_attack_targets(&bf, color_of(Side::Black));
        let served = g.generate_moves(&mut bs, color_of(second.stm));
        let own = h.generate_moves(&mut bs, color_of(second.stm));
        let mut a: Vec<MoveDesc> = served.iter().map(describe_impl).collect();
        let mut b: Vec<MoveDesc> = own.iter().map(describe_impl).collect();
        a.sort();
        b.sort();
        let mut diffs = Vec::new();
        if a != b {
            diffs.push(format!("moves: after-history {:?} vs brand-new {:?}", a.iter().map(desc_str).collect::<Vec<_>>(), b.iter().map(desc_str).collect::<Vec<_>>()));
        }
        for side in [Side::White, Side::Black] {
            let x = g.get_attack_targets(&bs, color_of(side)).0;
            let y = h.get_attack_targets(&bs, color_of(side)).0;
            if x != y {
                diffs.push(format!("attacks of {:?}: after-history {:#018x} vs brand-new {:#018x}", side, x, y));
            }
        }
        diffs
    });
    match r {
        Ok(d) if d.is_empty() => None,
        Ok(d) => Some(Violation {
            prop: "C02".to_string(),
            class: "served-another-positions-answer".to_string(),
            seed: second.to_fen(),
            path: vec![],
            detail: format!("generator first asked about {} then about {} (same key): {}", first.to_fen(), second.to_fen(), d.join("; ")),
            extra: json!({"kind": "pair", "first": first.to_fen(), "second": second.to_fen()}),
        }),
        Err(p) => Some(Violation {
            prop: "C02".to_string(),
            class: "panic-after-history".to_string(),
            seed: second.to_fen(),
            path: vec![],
            detail: format!("generator first asked about {} then about {}: {}", first.to_fen(), second.to_fen(), p),
            extra: json!({"kind": "pair", "first": first.to_fen(), "second": second.to_fen()}),
        }),
    }
}

/// Replay one recorded violation without the explorer's search: rebuild the seed, follow the
/// recorded path with a single work item, evaluate the owning oracle there.
pub fn replay(v: &serde_json::Value) -> i32 {
    let prop = v["property"].as_str().unwrap_or("").to_string();
    replay_with_flags(v, &prop, flags_for(&prop))
}

pub fn replay_with_flags(v: &serde_json::Value, prop: &str, flags: u32) -> i32 {
    let class = v["class"].as_str().unwrap_or("");
    if v["extra"]["kind"].as_str() == Some("pair") {
        let first = Pos::from_fen(v["extra"]["first"].as_str().unwrap_or("")).unwrap();
        let second = Pos::from_fen(v["extra"]["second"].as_str().unwrap_or("")).unwrap();
        let a = check_pair(&first, &second);
        let b = check_pair(&first, &second);
        return match (a, b) {
            (Some(x), Some(y)) if x.detail == y.detail => {
                println!("REPRODUCED property={} class={} :: {}", prop, x.class, x.detail);
                1
            }
            (None, None) => {
                println!("NOT-REPRODUCED property={} class={}", prop, class);
                0
            }
            _ => {
                eprintln!("MACHINERY-ERROR: replay is not deterministic");
                2
            }
        };
    }
    let seed_fen = v["seed"].as_str().unwrap_or("");
    let root = match Pos::from_fen(seed_fen) {
        Ok(p) => p,
        Err(e) => {
            eprintln!("MACHINERY-ERROR: {}", e);
            return 2;
        }
    };
    let mut pos = root.clone();
    let mut prefix = Vec::new();
    if let Some(arr) = v["path"].as_array() {
        for t in arr {
            let t = t.as_str().unwrap_or("");
            let m = match pos.legal_moves().into_iter().find(|m| uci(m) == t) {
                Some(m) => m,
                None => {
                    eprintln!("MACHINERY-ERROR: replay path move {} is not legal in {}", t, pos.to_fen());
                    return 2;
                }
            };
            pos = pos.make(&m);
            prefix.push(m);
        }
    }
    let mut outcomes = Vec::new();
    for _ in 0..2 {
        let sink = Sink::new(50);
        let cfg = WalkCfg { owner: prop.to_string(), flags, dedup: false, gen_renew: 60_000, threads: 1, wall_cap_s: 0 };
        let w = Walker::new(cfg, &sink);
        // visit every node along the path (so that history-dependent effects are rebuilt), then the end
        let mut items = Vec::new();
        for k in 0..=prefix.len() {
            items.push(Item { seed_name: "replay".to_string(), seed_fen: seed_fen.to_string(), root: root.clone(), prefix: prefix[..k].to_vec(), remaining: 0 });
        }
        let _ = w.run(&items);
        let got = sink.take();
        let mut hit: Vec<String> = Vec::new();
        for (_k, (_n, vs)) in got {
            for x in vs {
                if x.class == class {
                    hit.push(format!("{} :: {}", x.path.join(" "), x.detail));
                }
            }
        }
        hit.sort();
        outcomes.push(hit);
    }
    if outcomes[0] != outcomes[1] {
        eprintln!("MACHINERY-ERROR: replay is not deterministic");
        return 2;
    }
    if outcomes[0].is_empty() {
        println!("NOT-REPRODUCED property={} class={}", prop, class);
        0
    } else {
        println!("REPRODUCED property={} class={} :: {}", prop, class, outcomes[0][0]);
        1
    }
}

/// C05 part 2: read every key constant black-box (single-feature boards) and compare all pairs.
fn c05_constants(sink: &Sink, rep: &mut Report) {
    use chess::board::Board;
    let mut vals: Vec<(String, u64)> = Vec::new();
    for k in KINDS {
        for side in [Side::White, Side::Black] {
            for sq in 0..64u8 {
                let mut b = Board::new();
                let base = b.current_position_hash();
                b.put(bb(sq), piece_of(k), color_of(side)).unwrap();
                vals.push((format!("piece {:?} {:?} {}", k, side, sq_name(sq)), b.current_position_hash() ^ base));
                // removing it again must give the base key back
                b.remove(bb(sq));
                if b.current_position_hash() != base {
                    sink.push(Violation { prop: "C05".into(), class: "put-remove-not-inverse".into(), seed: format!("{:?} {:?} on {}", k, side, sq_name(sq)), path: vec![], detail: "key after put+remove differs from the empty board's".into(), extra: json!({"kind": "c05-const"}) });
                }
            }
        }
    }
    for sq in 0..64u8 {
        let mut b = Board::new();
        let base = b.current_position_hash();
        b.push_en_passant_target(bb(sq));
        vals.push((format!("ep target {}", sq_name(sq)), b.current_position_hash() ^ base));
        b.pop_en_passant_target();
        if b.current_position_hash() != base {
            sink.push(Violation { prop: "C05".into(), class: "ep-push-pop-not-inverse".into(), seed: sq_name(sq), path: vec![], detail: "key after push+pop of an ep target differs".into(), extra: json!({"kind": "c05-const"}) });
        }
    }
    for lost in 1..16u8 {
        let mut b = Board::new();
        let base = b.current_position_hash();
        b.lose_castle_rights(lost);
        vals.push((format!("rights set {:04b} (relative to all rights)", 0b1111 & !lost), b.current_position_hash() ^ base));
        b.pop_castle_rights();
        if b.current_position_hash() != base {
            sink.push(Violation { prop: "C05".into(), class: "rights-lose-pop-not-inverse".into(), seed: format!("{:04b}", lost), path: vec![], detail: "key after lose+pop of castle rights differs".into(), extra: json!({"kind": "c05-const"}) });
        }
    }
    let mut pairs = 0u64;
    for (i, (n, v)) in vals.iter().enumerate() {
        if *v == 0 {
            sink.push(Violation { prop: "C05".into(), class: "zero-key-constant".into(), seed: n.clone(), path: vec![], detail: "this component contributes nothing to the key".into(), extra: json!({"kind": "c05-const"}) });
        }
        for (m, w) in vals[i + 1..].iter() {
            pairs += 1;
            if v == w {
                sink.push(Violation { prop: "C05".into(), class: "equal-key-constants".into(), seed: format!("{} / {}", n, m), path: vec![], detail: format!("both contribute {:#018x}", v), extra: json!({"kind": "c05-const"}) });
            }
        }
    }
    // two-component differences: a change of the rights set, a change of the ep target (incl.
    // to / from none) and a single piece appearing / disappearing must never cancel each other
    {
        use std::collections::HashMap;
        let rights: Vec<(String, u64)> = {
            let mut v = vec![("rights 1111".to_string(), 0u64)];
            v.extend(vals.iter().filter(|(n, _)| n.starts_with("rights set")).cloned());
            v
        };
        let eps: Vec<(String, u64)> = {
            let mut v = vec![("no ep target".to_string(), 0u64)];
            v.extend(vals.iter().filter(|(n, _)| n.starts_with("ep target")).cloned());
            v
        };
        let mut dr: HashMap<u64, String> = HashMap::new();
        for i in 0..rights.len() {
            for j in i + 1..rights.len() {
                dr.insert(rights[i].1 ^ rights[j].1, format!("{} <-> {}", rights[i].0, rights[j].0));
            }
        }
        let mut cross = 0u64;
        for i in 0..eps.len() {
            for j in i + 1..eps.len() {
                cross += 1;
                let d = eps[i].1 ^ eps[j].1;
                if let Some(r) = dr.get(&d) {
                    sink.push(Violation { prop: "C05".into(), class: "rights-change-cancels-ep-change".into(), seed: format!("{} / {} <-> {}", r, eps[i].0, eps[j].0), path: vec![], detail: format!("two positions that differ in castling rights ({}) and in the en-passant target ({} <-> {}) have the same key (both differences contribute {:#018x})", r, eps[i].0, eps[j].0, d), extra: json!({"kind": "c05-const"}) });
                }
            }
        }
        for (n, v) in vals.iter().filter(|(n, _)| n.starts_with("piece")) {
            cross += 1;
            if let Some(r) = dr.get(v) {
                sink.push(Violation { prop: "C05".into(), class: "rights-change-cancels-piece".into(), seed: format!("{} / {}", r, n), path: vec![], detail: "a rights change and a piece appearing contribute the same value".into(), extra: json!({"kind": "c05-const"}) });
            }
        }
        rep.add("two_component_differences_compared", cross * dr.len() as u64);
    }
    let mut dg = 0xcbf29ce484222325u64;
    for (_, v) in &vals {
        dg = (dg ^ v).wrapping_mul(0x100000001b3);
    }
    rep.add("key_constants_read_black_box", vals.len() as u64);
    rep.add("constant_pairs_compared", pairs);
    rep.add("zobrist_table_digest_low32", dg & 0xFFFF_FFFF);
    rep.states += vals.len() as u64;
    rep.transitions += pairs;
}

/// C05 part 1b: the key of a set-up board does not depend on the order of the set-up calls.
fn c05_setup_orders(sink: &Sink, rep: &mut Report) {
    let fens = [
        "4k3/8/8/3pP3/8/8/8/R3K3 w Q d6 0 1",
        "r3k2r/8/8/8/8/8/8/R3K2R b Kq - 0 1",
        "8/P6k/8/8/2pP4/8/8/K7 b - d3 0 1",
    ];
    let mut n = 0u64;
    for f in fens {
        let p = Pos::from_fen(f).unwrap();
        let reference = build_board(&Pos { halfmove: 0, ply: 0, ..p.clone() }).current_position_hash();
        // operations: one put per piece, one rights call, one ep call; all permutations (<= 8 ops)
        #[derive(Clone, Copy)]
        enum Op {
            Put(u8),
            Rights,
            Ep,
        }
        let mut ops: Vec<Op> = (0..64u8).filter(|s| p.sq[*s as usize].is_some()).map(Op::Put).collect();
        ops.push(Op::Rights);
        if p.ep.is_some() {
            ops.push(Op::Ep);
        }
        let mut idx: Vec<usize> = (0..ops.len()).collect();
        // Heap's algorithm
        let mut c = vec![0usize; idx.len()];
        let mut eval = |idx: &Vec<usize>| {
            let mut b = chess::board::Board::new();
            for &i in idx {
                match ops[i] {
                    Op::Put(s) => {
                        let (k, side) = p.sq[s as usize].unwrap();
                        b.put(bb(s), piece_of(k), color_of(side)).unwrap();
                    }
                    Op::Rights => {
                        b.lose_castle_rights(0b1111 & !p.castle);
                    }
                    Op::Ep => {
                        b.push_en_passant_target(bb(p.ep.unwrap()));
                    }
                }
            }
            n += 1;
            if b.current_position_hash() != reference {
                sink.push(Violation { prop: "C05".into(), class: "key-depends-on-set-up-order".into(), seed: f.into(), path: vec![], detail: format!("call order {:?} gives {:#018x}, the canonical order gives {:#018x}", idx, b.current_position_hash(), reference), extra: json!({"kind": "c05-const"}) });
            }
        };
        eval(&idx);
        let mut i = 0;
        while i < idx.len() {
            if c[i] < i {
                if i % 2 == 0 {
                    idx.swap(0, i);
                } else {
                    idx.swap(c[i], i);
                }
                eval(&idx);
                c[i] += 1;
                i = 0;
            } else {
                c[i] = 0;
                i += 1;
            }
        }
    }
    rep.add("set_up_orders_compared", n);
    rep.states += n;
}

/// C02 part 3: ONE generator is asked about every distinct state the walk visited (up to `cap`,
/// in the order of the canonical keys), so that any two explored positions that the generator's
/// caches confuse are both served by the same instance; answers compared with the model,
/// arbitrated by a brand-new generator.
fn single_generator_pass(w: &Walker, sink: &Sink, rep: &mut Report, cap: usize) {
    let mut keys = w.visited_keys();
    keys.sort();
    let total = keys.len();
    if keys.len() > cap {
        // keep an evenly spread subset (stated in the evidence)
        let stride = keys.len() / cap + 1;
        keys = keys.into_iter().step_by(stride).collect();
    }
    let mut g = MoveGenerator::new();
    let mut asked = 0u64;
    let mut arbitrations = 0;
    let before = sink.count();
    for k in keys.iter() {
        if sink.count() > before + 500 {
            rep.notes.push("single-generator pass stopped after 500 violations".into());
            break;
        }
        let pos = uncanon(k);
        let mut board = build_board(&pos);
        let turn = color_of(pos.stm);
        let legal: Vec<MoveDesc> = {
            let mut v: Vec<MoveDesc> = pos.legal_moves().iter().map(describe_model).collect();
            v.sort();
            v
        };
        asked += 1;
        match guarded(|| g.generate_moves(&mut board, turn)) {
            Ok(ms) => {
                let mut got: Vec<MoveDesc> = ms.iter().map(describe_impl).collect();
                got.sort();
                if got != legal && arbitrations < 100 {
                    arbitrations += 1;
                    let fresh = guarded(|| MoveGenerator::new().generate_moves(&mut board, turn)).map(|v| {
                        let mut d: Vec<MoveDesc> = v.iter().map(describe_impl).collect();
                        d.sort();
                        d
                    });
                    if fresh != Ok(got.clone()) {
                        sink.push(Violation { prop: "C02".into(), class: "moves-differ-from-brand-new-generator(single-generator-pass)".into(), seed: pos.to_fen(), path: vec![], detail: format!("one generator asked about all {} explored states in key order: at {} it answers {:?}, a brand-new generator {:?}", asked, pos.to_fen(), diff_move_lists(&got, &legal), fresh.as_ref().map(|f| diff_move_lists(f, &legal))), extra: json!({"kind": "c02-pass"}) });
                    }
                }
            }
            Err(p) => {
                sink.push(Violation { prop: "C02".into(), class: "panic-in-generate_moves(single-generator-pass)".into(), seed: pos.to_fen(), path: vec![], detail: p, extra: json!({"kind": "c02-pass"}) });
                g = MoveGenerator::new();
            }
        }
        for side in [Side::White, Side::Black] {
            if let Ok(got) = guarded(|| g.get_attack_targets(&board, color_of(side))) {
                if got.0 != pos.attack_map(side) && arbitrations < 100 {
                    arbitrations += 1;
                    let fresh = guarded(|| MoveGenerator::new().get_attack_targets(&board, color_of(side))).map(|b| b.0);
                    if fresh != Ok(got.0) {
                        sink.push(Violation { prop: "C02".into(), class: "attacks-differ-from-brand-new-generator(single-generator-pass)".into(), seed: pos.to_fen(), path: vec![], detail: format!("side {:?}: {:#018x} vs brand-new {:?}", side, got.0, fresh), extra: json!({"kind": "c02-pass"}) });
                    }
                }
            }
        }
    }
    rep.add("single_generator_pass_states", asked);
    rep.transitions += asked;
    if total > cap {
        rep.notes.push(format!("single-generator pass: {} of {} explored states (every {}-th in key order)", asked, total, total / cap + 1));
    }
}

/// C06 with a generator that has served arbitrary earlier queries: ONE generator gives the
/// in-check and game-ending verdicts of every distinct state the walk visited (up to `cap`, in
/// key order); compared with the model.
fn single_generator_verdict_pass(w: &Walker, sink: &Sink, rep: &mut Report, cap: usize) {
    use chess::evaluate::{self, GameEnding};
    let mut keys = w.visited_keys();
    keys.sort();
    let total = keys.len();
    if keys.len() > cap {
        let stride = keys.len() / cap + 1;
        keys = keys.into_iter().step_by(stride).collect();
    }
    let mut g = MoveGenerator::new();
    let mut asked = 0u64;
    let mut arbitrations = 0u32;
    let mut clock_prequeries = 0u64;
    let before = sink.count();
    for k in keys.iter() {
        if sink.count() > before + 500 {
            rep.notes.push("single-generator verdict pass stopped after 500 violations".into());
            break;
        }
        let pos = uncanon(k);
        let mut board = build_board(&pos);
        let turn = color_of(pos.stm);
        asked += 1;
        // every 8th state is first put to the same generator with 100 plies on the half-move clock
        // (a drawn game: that verdict is C16's subject and is not judged here) — what the generator
        // then says about the position with a fresh clock must not be coloured by it
        if asked % 8 == 0 {
            let mut pc = pos.clone();
            pc.halfmove = 100;
            pc.ply = if pc.stm == Side::White { 200 } else { 201 };
            let mut bc = build_board(&pc);
            let _ = guarded(|| evaluate::game_ending(&mut bc, &mut g, turn));
            clock_prequeries += 1;
        }
        let legal_empty = pos.legal_moves().is_empty();
        let want = if legal_empty {
            if pos.in_check(pos.stm) {
                "checkmate"
            } else {
                "stalemate"
            }
        } else {
            "none"
        };
        match guarded(|| evaluate::game_ending(&mut board, &mut g, turn)) {
            Ok(e) => {
                let got = match e {
                    Some(GameEnding::Checkmate) => "checkmate",
                    Some(GameEnding::Stalemate) => "stalemate",
                    Some(GameEnding::Draw) => "draw",
                    None => "none",
                };
                if got != want {
                    // a brand-new generator costs ~100 ms: only the first few disagreements get one
                    arbitrations += 1;
                    let fresh = if arbitrations <= 20 { guarded(|| evaluate::game_ending(&mut board, &mut MoveGenerator::new(), turn)).map(|e| format!("{:?}", e)) } else { Err("(not asked: arbiter budget used up)".to_string()) };
                    sink.push(Violation { prop: "C06".into(), class: "game-ending-verdict(single-generator-pass)".into(), seed: pos.to_fen(), path: vec![], detail: format!("one generator asked about all explored states in key order: state number {} is judged {}, the rules say {}; a brand-new generator says {:?}", asked, got, want, fresh), extra: json!({"kind": "c06-pass"}) });
                }
            }
            Err(p) => {
                sink.push(Violation { prop: "C06".into(), class: "panic-in-game_ending(single-generator-pass)".into(), seed: pos.to_fen(), path: vec![], detail: p, extra: json!({"kind": "c06-pass"}) });
                g = MoveGenerator::new();
            }
        }
        for side in [Side::White, Side::Black] {
            if let Ok(got) = guarded(|| evaluate::player_is_in_check(&board, &mut g, color_of(side))) {
                if got != pos.in_check(side) {
                    sink.push(Violation { prop: "C06".into(), class: "in-check-verdict(single-generator-pass)".into(), seed: pos.to_fen(), path: vec![], detail: format!("side {:?}: engine says {}, rules say {}", side, got, pos.in_check(side)), extra: json!({"kind": "c06-pass"}) });
                }
            }
        }
    }
    rep.add("single_generator_pass_states", asked);
    rep.add("states_first_asked_with_an_exhausted_clock", clock_prequeries);
    rep.transitions += asked;
    if total > cap {
        rep.notes.push(format!("single-generator pass: {} of {} explored states (every {}-th in key order)", asked, total, total / cap + 1));
    }
}

/// positions that differ from `p` in exactly the en-passant possibility or the castling rights
/// (always consistent set-up positions: fewer rights / no ep target)
fn twins(p: &Pos) -> Vec<Pos> {
    let mut out = Vec::new();
    if p.ep.is_some() {
        let mut t = p.clone();
        t.ep = None;
        out.push(t);
        // positions differing in BOTH components: every subset of the rights combined with every
        // other consistent en-passant target on the same rank (and with none)
        let rank = rank_of(p.ep.unwrap());
        let mut eps: Vec<Option<Sq>> = vec![None];
        for f in 0..8i8 {
            eps.push(mk_sq(f, rank));
        }
        for r in 0..16u8 {
            if r & !p.castle != 0 {
                continue;
            }
            for e in eps.iter() {
                if r == p.castle && (*e == p.ep || e.is_none()) {
                    continue;
                }
                let mut t = p.clone();
                t.castle = r;
                t.ep = *e;
                if t.is_consistent() {
                    out.push(t);
                }
            }
        }
    }
    if p.castle != 0 {
        let mut t = p.clone();
        t.castle = 0;
        out.push(t);
        let own = if p.stm == Side::White { WK | WQ } else { BK | BQ };
        if p.castle & own != 0 && p.castle & !own != 0 {
            let mut t = p.clone();
            t.castle &= !own;
            out.push(t);
        }
    }
    out
}

/// C02 / C06: for every explored state that has an en-passant target or castling rights, the
/// state and its twins (same placement, other en-passant possibility / other rights) are put to
/// one generator in both orders; C02 compares move lists, C06 the game-ending verdicts.
fn twin_pass(prop: &str, w: &Walker, sink: &Sink, rep: &mut Report, threads: usize, cap: usize) {
    use chess::evaluate::{self, GameEnding};
    use rayon::prelude::*;
    let mut keys: Vec<CKey> = w.visited_keys().into_iter().filter(|k| (k[4] >> 1) != 0).collect(); // rights or ep present
    keys.sort();
    let total = keys.len();
    if keys.len() > cap {
        let stride = keys.len() / cap + 1;
        keys = keys.into_iter().step_by(stride).collect();
    }
    let pool = rayon::ThreadPoolBuilder::new().num_threads(threads).build().unwrap();
    let chunk = (keys.len() / (threads * 4).max(1)).max(1);
    let queries = std::sync::atomic::AtomicU64::new(0);
    let verdict = |p: &Pos| -> &'static str {
        if p.legal_moves().is_empty() {
            if p.in_check(p.stm) {
                "checkmate"
            } else {
                "stalemate"
            }
        } else {
            "none"
        }
    };
    let arb = std::sync::atomic::AtomicU32::new(0);
    let before = sink.count();
    pool.install(|| {
        keys.par_chunks(chunk).for_each(|ks| {
            // generator A sees each state before its twins, generator B the twins first
            let mut ga = MoveGenerator::new();
            let mut gb = MoveGenerator::new();
            let mut n = 0u64;
            let mut ask = |g: &mut MoveGenerator, p: &Pos, order: &str, annotate: bool| {
                let mut board = build_board(p);
                let turn = color_of(p.stm);
                if prop == "C02" {
                    let mut want: Vec<MoveDesc> = p.legal_moves().iter().map(describe_model).collect();
                    want.sort();
                    match guarded(|| g.generate_moves(&mut board, turn)) {
                        Ok(ms) => {
                            let mut got: Vec<MoveDesc> = ms.iter().map(describe_impl).collect();
                            got.sort();
                            if got != want {
                                // the brand-new generator only tells a history-dependent answer (C02) from a
                                // plainly wrong one (C01); after the budget every disagreement is reported
                                let within = arb.fetch_add(1, std::sync::atomic::Ordering::Relaxed) < 60;
                                let fresh = if within {
                                    guarded(|| MoveGenerator::new().generate_moves(&mut board, turn)).map(|v| {
                                        let mut d: Vec<MoveDesc> = v.iter().map(describe_impl).collect();
                                        d.sort();
                                        d
                                    })
                                } else {
                                    Ok(want.clone())
                                };
                                if fresh != Ok(got.clone()) {
                                    sink.push(Violation { prop: "C02".into(), class: "served-a-twin-positions-answer".into(), seed: p.to_fen(), path: vec![], detail: format!("generator asked about a position and its twins (same placement, other en-passant possibility / castling rights; {}): for {} it answers {:?}", order, p.to_fen(), diff_move_lists(&got, &want)), extra: json!({"kind": "c02-twins", "order": order}) });
                                }
                            }
                        }
                        Err(e) => sink.push(Violation { prop: "C02".into(), class: "panic-in-generate_moves(twins)".into(), seed: p.to_fen(), path: vec![], detail: e, extra: json!({"kind": "c02-twins", "order": order}) }),
                    }
                } else {
                    let want = verdict(p);
                    match guarded(|| evaluate::game_ending(&mut board, g, turn)) {
                        Ok(e) => {
                            let got = match e {
                                Some(GameEnding::Checkmate) => "checkmate",
                                Some(GameEnding::Stalemate) => "stalemate",
                                Some(GameEnding::Draw) => "draw",
                                None => "none",
                            };
                            if got != want {
                                sink.push(Violation { prop: "C06".into(), class: "game-ending-verdict(twins)".into(), seed: p.to_fen(), path: vec![], detail: format!("generator asked about a position and its twins (same placement, other en-passant possibility / castling rights; {}): {} is judged {}, the rules say {}", order, p.to_fen(), got, want), extra: json!({"kind": "c06-twins", "order": order}) });
                            }
                        }
                        Err(e) => sink.push(Violation { prop: "C06".into(), class: "panic-in-game_ending(twins)".into(), seed: p.to_fen(), path: vec![], detail: e, extra: json!({"kind": "c06-twins", "order": order}) }),
                    }
                    // en-passant twins: also the annotated move list (length and every annotation)
                    if annotate {
                        let legal = p.legal_moves();
                        match guarded(|| g.generate_moves_and_lazily_update_chess_move_effects(&mut board, turn)) {
                            Ok(am) => {
                                let mut bad = am.len() != legal.len();
                                for m in am.iter() {
                                    let d = describe_impl(m);
                                    match legal.iter().find(|x| describe_model(x) == d) {
                                        Some(mm) => {
                                            let succ = p.make(mm);
                                            let want = if succ.in_check(succ.stm) {
                                                if succ.legal_moves().is_empty() {
                                                    chess::chess_move::chess_move_effect::ChessMoveEffect::Checkmate
                                                } else {
                                                    chess::chess_move::chess_move_effect::ChessMoveEffect::Check
                                                }
                                            } else {
                                                chess::chess_move::chess_move_effect::ChessMoveEffect::None
                                            };
                                            if m.effect() != want {
                                                bad = true;
                                            }
                                        }
                                        None => bad = true,
                                    }
                                }
                                if bad {
                                    sink.push(Violation { prop: "C06".into(), class: "annotated-list(twins)".into(), seed: p.to_fen(), path: vec![], detail: format!("generator asked about a position and its en-passant twin ({}): the annotated list for {} has {} moves (rules: {}) or a wrong annotation", order, p.to_fen(), am.len(), legal.len()), extra: json!({"kind": "c06-twins", "order": order}) });
                                }
                            }
                            Err(e) => sink.push(Violation { prop: "C06".into(), class: "panic-in-annotated-generation(twins)".into(), seed: p.to_fen(), path: vec![], detail: e, extra: json!({"kind": "c06-twins", "order": order}) }),
                        }
                    }
                }
            };
            for k in ks {
                if sink.count() > before + 500 {
                    break;
                }
                let p = uncanon(k);
                let ts = twins(&p);
                let has_ep = p.ep.is_some();
                ask(&mut ga, &p, "state first", has_ep);
                for (i, t) in ts.iter().enumerate() {
                    ask(&mut ga, t, "state first", has_ep && i == 0);
                }
                for (i, t) in ts.iter().enumerate() {
                    ask(&mut gb, t, "twins first", has_ep && i == 0);
                }
                ask(&mut gb, &p, "twins first", has_ep);
                n += 2 + 2 * ts.len() as u64;
                if ga.cache_entry_count() > 60_000 {
                    ga = MoveGenerator::new();
                    gb = MoveGenerator::new();
                }
            }
            queries.fetch_add(n, std::sync::atomic::Ordering::Relaxed);
        });
    });
    let q = queries.load(std::sync::atomic::Ordering::Relaxed);
    rep.add("twin_pass_queries", q);
    rep.add("twin_pass_states_with_ep_or_rights", keys.len() as u64);
    rep.transitions += q;
    if total > cap {
        rep.notes.push(format!("twin pass: {} of {} explored states with an ep target or rights", keys.len(), total));
    }
}
