//! C16 — move counters are faithful; the move-count draw follows the fifty-move rule.
//!
//! Part A: step-local clock oracle on every transition of the tree-seed walk (all move kinds).
//! Part B: the same walk from set-up boards with pre-loaded clocks at the boundary values
//!         (half-move 47..101, move counter 250..256 and beyond), so that every move kind is
//!         made across every boundary.
//! Part C: explicit-state BFS over (position, half-move clock) on closed locked-pawn graphs
//!         (no capture is ever possible; optional spare pawns give pawn moves inside
//!         capture-free stretches), every state carrying a live board reached by real moves;
//!         paths run to several hundred plies.  Draw verdict compared in every state.

use crate::bind::*;
use crate::refchess::*;
use crate::report::{Report, Sink, Violation};
use crate::seeds::*;
use crate::walk::*;
use crate::Args;
use chess::board::Board;
use chess::evaluate::{self, GameEnding};
use chess::move_generator::MoveGenerator;
use serde_json::json;
use std::collections::HashSet;

const BOUNDARY_SEEDS: &[(&str, &str)] = &[
    ("kiwipete", "r3k2r/p1ppqpb1/bn2pnp1/3PN3/1p2P3/2N2Q1p/PPPBBPPP/R3K2R w KQkq - 0 1"),
    ("promo-race", "n1n5/PPPk4/8/8/8/8/4Kppp/5N1N b - - 0 1"),
    ("ep-legal-both", "4k3/8/8/2PpP3/8/8/8/4K3 w - d6 0 1"),
    ("castle-base-w", "r3k2r/8/8/8/8/8/8/R3K2R w KQkq - 0 1"),
    ("kqk-corner", "7k/8/5K2/8/8/8/8/6Q1 w - - 0 1"),
    ("locked-wall", "4k3/8/8/p1p1p1p1/P1P1P1P1/8/8/4K3 w - - 0 1"),
];

struct GraphSeed {
    name: &'static str,
    fen: &'static str,
    /// BFS stops expanding a state whose half-move clock reached this value
    half_cap: u32,
    thorough_only: bool,
    /// depth-first frontier: states are reached along long paths (games of several hundred plies)
    dfs: bool,
}

const GRAPH_SEEDS: &[GraphSeed] = &[
    GraphSeed { name: "locked-wall", fen: "4k3/8/8/p1p1p1p1/P1P1P1P1/8/8/4K3 w - - 0 1", half_cap: 104, thorough_only: false, dfs: false },
    GraphSeed { name: "locked-wall+spare-pawns", fen: "4k3/p7/8/p1p1p1p1/P1P1P1P1/8/P7/4K3 w - - 0 1", half_cap: 104, thorough_only: false, dfs: true },
    GraphSeed { name: "locked-wall+4-spare-pawns", fen: "4k3/p3p3/8/p1p1p1p1/P1P1P1P1/8/P3P3/4K3 w - - 0 1", half_cap: 102, thorough_only: true, dfs: true },
];

fn ending_name(e: &Option<GameEnding>) -> &'static str {
    match e {
        Some(GameEnding::Checkmate) => "checkmate",
        Some(GameEnding::Stalemate) => "stalemate",
        Some(GameEnding::Draw) => "draw",
        None => "none",
    }
}

pub fn run(a: &Args) -> i32 {
    let mut rep = Report::new("C16", &a.tier, a.seed);
    let sink = Sink::new(6);
    let thorough = a.tier == "thorough";
    let mut samples = Vec::new();

    // ---- part A + B: walker ----
    let mut items = Vec::new();
    for sd in TREE_SEEDS {
        let mut d = depth_for(sd, &a.tier);
        if sd.name == "promo-vs-rooks" {
            d = d.min(4); // walked without merging here
        }
        let root = Pos::from_fen(sd.fen).unwrap();
        let split = if d >= 3 { 2 } else if d == 2 { 1 } else { 0 };
        items.extend(items_for(sd.name, sd.fen, &root, d, split));
    }
    let partb_from = items.len();
    let halves: &[u32] = &[47, 48, 49, 50, 51, 97, 98, 99, 100, 101];
    let plies: &[u32] = &[0, 125, 252, 253, 254, 255, 256, 300, 511];
    let bdepth = if thorough { 3 } else { 2 };
    let mut boundary_roots = 0u64;
    for (name, fen) in BOUNDARY_SEEDS {
        let base = Pos::from_fen(fen).unwrap();
        for &h in halves {
            for &p in plies {
                // the full product only on two seeds in the quick tier; elsewhere the diagonal
                if !thorough && !(matches!(*name, "kiwipete" | "locked-wall") || h == 99 || p == 254) {
                    continue;
                }
                let mut root = base.clone();
                root.halfmove = h;
                // keep the parity of the ply count consistent with the side to move, so that the
                // position survives a FEN round trip (replay files); both parities occur across seeds
                root.ply = if (p % 2 == 1) == (root.stm == Side::Black) { p } else { p + 1 };
                // the pre-loaded position must be representable through the editing API; if it
                // is not, that is the finding (reported once per value by `probe_representable`)
                if !probe_representable(&root, &sink) {
                    continue;
                }
                boundary_roots += 1;
                let f = root.to_fen();
                let nm = format!("{}@half{}ply{}", name, h, p);
                for it in items_for(Box::leak(nm.into_boxed_str()), Box::leak(f.into_boxed_str()), &root, bdepth, 1) {
                    items.push(it);
                }
            }
        }
    }
    samples.push(json!({"part": "B", "boundary_seed_example": items.get(partb_from).map(|i| i.seed_fen.clone()), "half_move_values": halves, "ply_values": plies, "depth": bdepth}));
    // long games from the starting position (clocks reset a dozen times on the way), a small tree
    // at the end, then the whole game unwound with both clocks compared at every ply
    let long_lens: &[usize] = &[255, 256, 300, 513, 520, 700, 1100];
    for len in long_lens {
        let start = Pos::startpos();
        items.push(Item { seed_name: format!("long-game-{}", len), seed_fen: start.to_fen(), root: start.clone(), prefix: preroll_game(*len), remaining: 2 });
    }
    let eproot = Pos::from_fen(LONG_GAME_EP_ROOT).unwrap();
    for len in [254usize, 510, 640] {
        items.push(Item { seed_name: format!("long-game-ep-{}", len), seed_fen: eproot.to_fen(), root: eproot.clone(), prefix: preroll_game_from(&eproot, len), remaining: 2 });
    }
    samples.push(json!({"part": "long games unwound", "game_lengths": long_lens, "from_ep_root": [254, 510, 640], "tail_depth": 2}));
    let cfg = WalkCfg { owner: "C16".into(), flags: F16, dedup: false, gen_renew: 60_000, threads: a.threads, wall_cap_s: if thorough { 3600 } else { 200 } };
    // no dedup: the canonical key does not contain the clocks
    let w = Walker::new(cfg, &sink);
    let n = w.run(&items);
    fill_report(&mut rep, &w, &n);
    rep.add("boundary_roots", boundary_roots);

    // ---- part B': one long-lived Game polled after every ply ----
    // boards pre-loaded with 93..99 plies on the clock, every quiet king path of six plies (positions
    // recur along many of them), `check_game_over_for_current_turn` after every ply: drawn exactly
    // when the clock has reached 100 (or a position has occurred three times)
    {
        use chess::game::game::Game;
        use rayon::prelude::*;
        let root0 = Pos::from_fen("7k/8/8/8/8/8/8/K7 w - - 0 1").unwrap();
        let allowed: Vec<Sq> = ["a1", "b1", "b2", "a2", "h8", "g8", "g7", "h7"].iter().map(|x| parse_sq(x).unwrap()).collect();
        let mut paths: Vec<Vec<Move>> = vec![vec![]];
        for _ in 0..6 {
            let mut next = Vec::new();
            for h in &paths {
                let mut p = root0.clone();
                for m in h {
                    p = p.make(m);
                }
                for m in p.legal_moves().into_iter().filter(|m| allowed.contains(&m.from) && allowed.contains(&m.to)) {
                    let mut t = h.clone();
                    t.push(m);
                    next.push(t);
                }
            }
            paths = next;
        }
        let step = if thorough { 1 } else { 3 };
        let jobs: Vec<(u32, &Vec<Move>)> = [93u32, 94, 95, 96, 97, 98, 99].iter().flat_map(|h| paths.iter().step_by(step).map(move |p| (*h, p))).collect();
        let polls = std::sync::atomic::AtomicU64::new(0);
        let sink_ref = &sink;
        jobs.par_iter().for_each(|(half, h)| {
            let mut root = root0.clone();
            root.halfmove = *half;
            root.ply = 200;
            let mut g = Game::from_board(build_board(&root), 1);
            let mut p = root.clone();
            let mut occ: std::collections::HashMap<CKey, u32> = std::collections::HashMap::new();
            occ.insert(canon(&p), 1);
            let mut played: Vec<String> = Vec::new();
            for m in h.iter() {
                match guarded(|| g.apply_chess_move_by_from_to_coordinates(bb(m.from), bb(m.to))) {
                    Ok(Ok(_)) => {}
                    _ => break, // C14's subject
                }
                g.board_mut().toggle_turn();
                p = p.make(m);
                played.push(uci(m));
                let c = {
                    let e = occ.entry(canon(&p)).or_insert(0);
                    *e += 1;
                    *e
                };
                polls.fetch_add(1, std::sync::atomic::Ordering::Relaxed);
                let got = guarded(|| g.check_game_over_for_current_turn());
                let is_draw = matches!(got, Ok(Some(GameEnding::Draw)));
                let want_draw = p.halfmove >= 100 || c >= 3;
                if is_draw != want_draw {
                    sink_ref.push(Violation { prop: "C16".into(), class: if want_draw { "game-not-drawn-at-100".into() } else { "game-drawn-before-100".into() }, seed: root.to_fen(), path: played.clone(), detail: format!("one Game polled after every ply: after {:?} the half-move clock is {} (position seen {} time(s)), verdict {:?}", played, p.halfmove, c, got.as_ref().map(|x| format!("{:?}", x))), extra: json!({"kind": "c16-game"}) });
                    break;
                }
                if want_draw {
                    break;
                }
            }
        });
        rep.add("game_level_polls_with_preloaded_clocks", polls.load(std::sync::atomic::Ordering::Relaxed));
        rep.transitions += polls.load(std::sync::atomic::Ordering::Relaxed);
    }

    // ---- part C: graph BFS ----
    for gs in GRAPH_SEEDS {
        if gs.thorough_only && !thorough {
            continue;
        }
        let (st, tr, maxply, layers) = graph_bfs(gs, &sink);
        rep.states += st;
        rep.transitions += tr;
        rep.traces += st;
        rep.add("graph_states_(position,halfmove)", st);
        rep.add("graph_transitions", tr);
        let cur = rep.counters.get("longest_game_plies").copied().unwrap_or(0);
        if maxply > cur {
            rep.counters.insert("longest_game_plies".into(), maxply);
        }
        samples.push(json!({"part": "C", "graph": gs.name, "fen": gs.fen, "half_cap": gs.half_cap, "states": st, "transitions": tr, "bfs_layers": layers, "longest_path_plies": maxply}));
    }
    rep.samples = samples;
    rep.bounds = json!({"part_A": "tree seeds at tier depth", "part_B": {"half_move_preloads": halves, "ply_preloads": plies, "depth": bdepth}, "part_C": "BFS to fixpoint on (position, half-move clock <= cap) for each closed graph"});
    rep.rule = "state = (position, half-move clock, ply); every transition is a real apply (and undo) whose clock step is compared with the rule; every state compares the draw verdict with `clock >= 100`".to_string();
    rep.assumptions = vec![
        "a checkmated / stalemated position whose clock is >= 100 is not judged (the statement does not fix the precedence)".into(),
        "built with overflow checks, so a wrapping counter aborts and is reported".into(),
    ];
    rep.mandatory = vec!["clock_steps_checked".into(), "quiet_pawn_moves".into(), "states_at_or_past_100".into(), "draw_verdicts_checked".into(), "graph_transitions".into(), "game_level_polls_with_preloaded_clocks".into()];
    rep.finish(&sink)
}

/// Can this pre-loaded position be expressed through the editing API at all?
fn probe_representable(p: &Pos, sink: &Sink) -> bool {
    match guarded(|| build_board(p)) {
        Ok(_) => true,
        Err(e) => {
            let cls = if e.contains("move counter") { "move-counter-cannot-represent-ply" } else { "halfmove-clock-cannot-represent-value" };
            sink.push(Violation {
                prop: "C16".into(),
                class: cls.into(),
                seed: p.to_fen(),
                path: vec![],
                detail: format!("a game {} plies old with {} plies since the last capture/pawn move cannot be set up: {}", p.ply, p.halfmove, e),
                extra: json!({"kind": "c16-representable", "ply": p.ply, "half": p.halfmove}),
            });
            false
        }
    }
}

/// BFS over (position, half-move clock) with live boards.  Returns (states, transitions, longest path, layers).
fn graph_bfs(gs: &GraphSeed, sink: &Sink) -> (u64, u64, u64, u64) {
    let root = Pos::from_fen(gs.fen).unwrap();
    let mut seen: HashSet<(CKey, u32)> = HashSet::new();
    let mut frontier: Vec<(Board, Pos, Vec<String>)> = vec![(build_board(&root), root.clone(), vec![])];
    seen.insert((canon(&root), root.halfmove));
    let mut g = MoveGenerator::new();
    let mut stack: Vec<(Board, Pos, Vec<String>)> = Vec::new();
    let (mut states, mut trans, mut maxply, mut layers) = (0u64, 0u64, 0u64, 0u64);
    let viol = |class: &str, path: &Vec<String>, detail: String| {
        sink.push(Violation { prop: "C16".into(), class: class.into(), seed: gs.fen.into(), path: path.clone(), detail, extra: json!({"kind": "c16-graph", "graph": gs.name}) });
    };
    while !frontier.is_empty() {
        layers += 1;
        let mut next = Vec::new();
        for (mut board, pos, path) in frontier.drain(..) {
            states += 1;
            maxply = maxply.max(pos.ply as u64);
            let s0 = snapshot(&board);
            if s0.half != pos.halfmove || s0.full != 1 + pos.ply {
                viol("clock-absolute-value", &path, format!("half-move clock {} (true {}), move counter {} (true {}); {}", s0.half, pos.halfmove, s0.full, 1 + pos.ply, pos.to_fen()));
            }
            let legal = pos.legal_moves();
            let turn = color_of(pos.stm);
            match guarded(|| evaluate::game_ending(&mut board, &mut g, turn)) {
                Ok(e) => {
                    let is_draw = matches!(e, Some(GameEnding::Draw));
                    if pos.halfmove >= 100 && !legal.is_empty() && !is_draw {
                        viol("no-draw-at-100", &path, format!("clock {} verdict {}; {}", pos.halfmove, ending_name(&e), pos.to_fen()));
                    }
                    if pos.halfmove < 100 && is_draw {
                        viol("draw-before-100", &path, format!("reported drawn with {} plies since the last capture or pawn move; {}", pos.halfmove, pos.to_fen()));
                    }
                }
                Err(p) => viol("panic-in-game_ending", &path, p),
            }
            if pos.halfmove >= gs.half_cap {
                continue;
            }
            for m in legal.iter() {
                let im = impl_move_from_model(m, pos.stm);
                trans += 1;
                match guarded(|| im.apply(&mut board)) {
                    Ok(Ok(())) => {}
                    Ok(Err(e)) => {
                        viol("apply-failed", &path, format!("{}: {}", uci(m), e));
                        break;
                    }
                    Err(p) => {
                        let cls = if p.contains("overflow") { "counter-overflow-aborts" } else { "panic-in-apply" };
                        viol(cls, &path, format!("{} at ply {} with half-move clock {}: {}", uci(m), pos.ply, pos.halfmove, p));
                        break;
                    }
                }
                let s1 = snapshot(&board);
                let resets = m.captured.is_some() || m.moved == Kind::Pawn;
                let want = if resets { 0 } else { s0.half + 1 };
                if s1.half != want {
                    let cls = if m.moved == Kind::Pawn && m.captured.is_none() { "halfmove-not-reset-on-pawn-move" } else if resets { "halfmove-not-reset-on-capture" } else { "halfmove-not-incremented" };
                    viol(cls, &path, format!("after {}: clock {} -> {}, rule gives {}", uci(m), s0.half, s1.half, want));
                }
                if s1.full != s0.full + 1 {
                    viol("move-counter-step", &path, format!("after {}: counter {} -> {}", uci(m), s0.full, s1.full));
                }
                let succ = pos.make(m);
                let key = (canon(&succ), succ.halfmove);
                if seen.insert(key) {
                    let mut nb = board.clone();
                    nb.toggle_turn();
                    let mut np = path.clone();
                    np.push(uci(m));
                    next.push((nb, succ, np));
                }
                match guarded(|| im.undo(&mut board)) {
                    Ok(Ok(())) => {}
                    other => {
                        viol("undo-failed", &path, format!("{}: {:?}", uci(m), other.map(|r| r.map_err(|e| e.to_string()))));
                        break;
                    }
                }
                let s2 = snapshot(&board);
                if s2 != s0 {
                    viol("undo-does-not-restore-clocks", &path, format!("after apply+undo of {}: {}", uci(m), s0.diff(&s2)));
                    break;
                }
            }
        }
        if gs.dfs {
            // depth-first: continue from the most recently discovered state only, keep the rest stacked
            // clock-resetting successors go to the bottom of this batch so that they are taken up
            // late, i.e. from deep inside a capture-free stretch
            frontier = Vec::new();
            let (resetting, quiet): (Vec<_>, Vec<_>) = next.into_iter().partition(|(_, p, _)| p.halfmove == 0);
            stack.extend(resetting);
            stack.extend(quiet);
            if let Some(top) = stack.pop() {
                frontier.push(top);
            }
        } else {
            frontier = next;
        }
    }
    (states, trans, maxply, layers)
}

pub fn replay(v: &serde_json::Value) -> i32 {
    let kind = v["extra"]["kind"].as_str().unwrap_or("");
    let class = v["class"].as_str().unwrap_or("").to_string();
    match kind {
        "c16-representable" => {
            let mut p = Pos::from_fen(v["seed"].as_str().unwrap_or("")).unwrap();
            p.ply = v["extra"]["ply"].as_u64().unwrap_or(0) as u32;
            p.halfmove = v["extra"]["half"].as_u64().unwrap_or(0) as u32;
            let sink = Sink::new(4);
            if probe_representable(&p, &sink) {
                println!("NOT-REPRODUCED property=C16 class={}", class);
                0
            } else {
                println!("REPRODUCED property=C16 class={}", class);
                1
            }
        }
        "c16-graph" => {
            // follow the recorded path with real moves and re-evaluate the step / verdict oracles
            let root = Pos::from_fen(v["seed"].as_str().unwrap_or("")).unwrap();
            let mut outcomes = Vec::new();
            for _ in 0..2 {
                let sink = Sink::new(100);
                let mut pos = root.clone();
                let mut items_path = Vec::new();
                if let Some(arr) = v["path"].as_array() {
                    for t in arr {
                        let m = pos.legal_moves().into_iter().find(|m| uci(m) == t.as_str().unwrap_or("")).expect("replay path");
                        pos = pos.make(&m);
                        items_path.push(m);
                    }
                }
                let cfg = WalkCfg { owner: "C16".into(), flags: F16, dedup: false, gen_renew: 60_000, threads: 1, wall_cap_s: 0 };
                let w = Walker::new(cfg, &sink);
                let item = Item { seed_name: "replay".into(), seed_fen: root.to_fen(), root: root.clone(), prefix: items_path, remaining: 0 };
                let _ = w.run(&[item]);
                let got = sink.take();
                let mut hit: Vec<String> = got.values().flat_map(|(_, vs)| vs.iter().filter(|x| x.class == class).map(|x| x.detail.clone())).collect();
                hit.sort();
                outcomes.push(hit);
            }
            if outcomes[0] != outcomes[1] {
                eprintln!("MACHINERY-ERROR: replay is not deterministic");
                return 2;
            }
            if outcomes[0].is_empty() {
                println!("NOT-REPRODUCED property=C16 class={}", class);
                0
            } else {
                println!("REPRODUCED property=C16 class={} :: {}", class, outcomes[0][0]);
                1
            }
        }
        _ => crate::props::walkprops::replay_with_flags(v, "C16", F16),
    }
}
