//! One driver per property (several share the lock-step walk).

pub mod c07;
pub mod c08;
pub mod c09;
pub mod c09_locks;
pub mod c10;
pub mod c11;
pub mod c14;
pub mod c14_bin;
pub mod c15;
pub mod c16;
pub mod c17;
pub mod c18;
pub mod walkprops;

use crate::Args;

pub fn run(a: &Args) -> i32 {
    match a.prop.as_str() {
        "C01" | "C02" | "C03" | "C04" | "C05" | "C06" | "C12" | "C13" | "C19" => walkprops::run(a),
        "C07" => c07::run(a),
        "C08" => c08::run(a),
        "C09" => c09::run(a),
        "C10" => c10::run(a),
        "C11" => c11::run(a),
        "C14" => c14::run(a),
        "C15" => c15::run(a),
        "C16" => c16::run(a),
        "C17" => c17::run(a),
        "C18" => c18::run(a),
        other => {
            eprintln!("MACHINERY-ERROR: no check registered for {}", other);
            2
        }
    }
}

pub fn replay(file: &str) -> i32 {
    let txt = match std::fs::read_to_string(file) {
        Ok(t) => t,
        Err(e) => {
            eprintln!("MACHINERY-ERROR: cannot read {}: {}", file, e);
            return 2;
        }
    };
    let v: serde_json::Value = match serde_json::from_str(&txt) {
        Ok(v) => v,
        Err(e) => {
            eprintln!("MACHINERY-ERROR: bad replay file: {}", e);
            return 2;
        }
    };
    let prop = v["property"].as_str().unwrap_or("").to_string();
    // witnesses that only exist inside a whole pass over the explored state space (one generator
    // asked about every state, twin passes, generator draws, rebuilt draws): the replay is the
    // check itself, re-run in the tier that found the witness
    let kind = v["extra"]["kind"].as_str().unwrap_or("");
    if matches!(kind, "c16-game" | "c11-nearkey" | "c11-pool" | "c05-registered" | "c02-pass" | "c02-twins" | "c06-pass" | "c06-twins" | "c11-draw" | "other-draw" | "c05-const" | "c14-path" | "c14-binary" | "c10-cli" | "hang" | "c09-free" | "c09-free-hang") {
        let tier = v["tier"].as_str().unwrap_or("quick").to_string();
        println!("REPLAY: this witness ({}) is reproduced by re-running the whole check `{} {}`", kind, prop, tier);
        let a = Args { prop: prop.clone(), tier, seed: 0, threads: std::thread::available_parallelism().map(|n| n.get()).unwrap_or(8) };
        let rc = run(&a);
        println!("{} property={}", if rc == 1 { "REPRODUCED" } else { "NOT-REPRODUCED" }, prop);
        return rc;
    }
    match prop.as_str() {
        "C01" | "C02" | "C03" | "C04" | "C05" | "C06" | "C12" | "C13" | "C19" => walkprops::replay(&v),
        "C07" => c07::replay(&v),
        "C08" => c08::replay(&v),
        "C09" => c09::replay(&v),
        "C10" => c10::replay(&v),
        "C11" => c11::replay(&v),
        "C14" => c14::replay(&v),
        "C15" => c15::replay(&v),
        "C16" => c16::replay(&v),
        "C17" => c17::replay(&v),
        "C18" => c18::replay(&v),
        other => {
            eprintln!("MACHINERY-ERROR: no replay registered for {}", other);
            2
        }
    }
}
