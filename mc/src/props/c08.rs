//! C08 — search value and chosen move equal exact fixed-depth minimax.
//!
//! Oracle: plain recursive minimax (no pruning, no cache), transitions from the model's move
//! generator, leaves scored by the engine's own public `evaluate::score`.
//! (a) brand-new context: (position, depth) over seed roots, their neighbours, and small
//!     endgames at depth 3..5 (where one search revisits placements at other depths / sides);
//! (b) reused context, ALL histories of the shape search - any legal move - any legal reply -
//!     search again (- move - reply - search again in thorough) from several seeds, the context
//!     carried along exactly as `Game` does; plus engine-vs-engine game lines.

use crate::bind::*;
use crate::refchess::*;
use crate::report::{Report, Sink, Violation};
use crate::search::*;
use crate::seeds::*;
use crate::walk::impl_move_from_model;
use crate::Args;
use chess::alpha_beta_searcher::SearchContext;
use chess::move_generator::MoveGenerator;
use rustc_hash::FxHashMap;
use serde_json::json;
use std::collections::HashSet;
use std::sync::atomic::{AtomicU64, AtomicUsize, Ordering};
use std::sync::Mutex;

type OracleCache = Mutex<FxHashMap<(CKey, u8), (Vec<(Move, i16)>, Option<i16>)>>;

fn oracle(cache: &OracleCache, pos: &Pos, depth: u8, nodes: &AtomicU64) -> (Vec<(Move, i16)>, Option<i16>) {
    let k = (canon(pos), depth);
    if let Some(v) = cache.lock().unwrap().get(&k) {
        return v.clone();
    }
    let mut n = 0u64;
    // depths 1..3: the plain recursion; from depth 4 the memoised one, and the first few of those
    // are computed both ways and compared (a difference is an error of this machinery)
    let v = if depth >= 4 {
        let v = root_values_memo(pos, depth, &mut n, &MEMO);
        if CROSS_CHECKED.fetch_add(1, Ordering::Relaxed) < 12 {
            let mut n2 = 0u64;
            let plain = root_values(pos, depth, &mut n2);
            if plain != v {
                eprintln!("MACHINERY-ERROR: memoised minimax differs from plain minimax at {} depth {}", pos.to_fen(), depth);
                std::process::exit(2);
            }
        }
        v
    } else {
        root_values(pos, depth, &mut n)
    };
    nodes.fetch_add(n, Ordering::Relaxed);
    cache.lock().unwrap().insert(k, v.clone());
    v
}

static MEMO: std::sync::LazyLock<MinimaxMemo> = std::sync::LazyLock::new(MinimaxMemo::default);
static CROSS_CHECKED: AtomicU64 = AtomicU64::new(0);

/// compare one search outcome with the oracle; returns a violation class + detail
fn judge(out: &Outcome, vals: &[(Move, i16)], root: Option<i16>, tag: &str) -> Option<(String, String)> {
    match out {
        Outcome::Move(d, score) => {
            let root = match root {
                Some(r) => r,
                None => return Some((format!("move-without-legal-moves({})", tag), desc_str(d))),
            };
            let mv = vals.iter().find(|(m, _)| describe_model(m) == *d);
            match mv {
                None => Some((format!("illegal-move({})", tag), desc_str(d))),
                Some((_, v)) => {
                    if *score != Some(root) {
                        Some((format!("score-differs-from-minimax({})", tag), format!("search reports {:?}, exact minimax value is {} (returned move {} has minimax value {})", score, root, desc_str(d), v)))
                    } else if *v != root {
                        Some((format!("move-does-not-attain-value({})", tag), format!("returned move {} has minimax value {}, the position's value is {}", desc_str(d), v, root)))
                    } else {
                        None
                    }
                }
            }
        }
        Outcome::NoAvailableMoves if vals.is_empty() => None,
        other => Some((format!("unexpected-outcome({})", tag), format!("{:?}", other))),
    }
}

struct CaseA {
    pos: Pos,
    depth: u8,
    class: &'static str,
}

const ENDGAMES: &[(&str, &str)] = &[
    ("krk", "8/8/8/8/8/k7/8/K6R w - - 0 1"),
    ("krk-b", "8/8/8/8/8/k7/8/K6R b - - 0 1"),
    ("kpk", "8/8/8/8/8/4k3/4P3/4K3 w - - 0 1"),
    ("kqk", "7k/8/5K2/8/8/8/8/6Q1 w - - 0 1"),
    ("kpp-kp", "7k/7p/8/8/8/8/6PP/7K w - - 0 1"),
    ("kbnk-corner", "7k/8/5K2/8/8/8/8/5BN1 w - - 0 1"),
];

const HIST_SEEDS: &[(&str, &str, u8, u8)] = &[
    // name, fen, max search depth quick, thorough
    ("startpos", "rnbqkbnr/pppppppp/8/8/8/8/PPPPPPPP/RNBQKBNR w KQkq - 0 1", 2, 3),
    ("krk", "8/8/8/8/8/k7/8/K6R w - - 0 1", 3, 4),
    ("kpk", "8/8/8/8/8/4k3/4P3/4K3 w - - 0 1", 3, 4),
    ("kqk", "7k/8/5K2/8/8/8/8/6Q1 w - - 0 1", 3, 3),
    ("castle-base-w", "r3k2r/8/8/8/8/8/8/R3K2R w KQkq - 0 1", 2, 2),
    ("ep-legal-both", "4k3/8/8/2PpP3/8/8/8/4K3 w - d6 0 1", 3, 4),
];

/// reused-context histories at depth 4 (5 in thorough): small positions with loose material
const SWING_SEEDS: &[(&str, &str)] = &[
    ("rook-ending-11", "5R2/p1kr4/3p2p1/3P1P2/8/2K1P3/2P5/3r4 w - - 0 1"),
    ("krp-kr", "8/2k5/3r4/8/3P4/2K5/8/5R2 w - - 0 1"),
    ("minor-ending", "8/5k2/4n3/8/3B4/2K2P2/8/8 w - - 0 1"),
    ("q-vs-rp", "8/8/4k3/3r4/4p3/2K1Q3/8/8 w - - 0 1"),
    ("kpp-kp", "7k/7p/8/8/8/8/6PP/7K w - - 0 1"),
    ("pawn-race", "8/p7/8/8/8/8/7P/K6k w - - 0 1"),
    ("rook-ending-black", "3R4/2p5/2k1p3/8/3p1p2/3P2P1/P1KR4/5r2 b - - 0 1"),
];

pub fn run(a: &Args) -> i32 {
    let mut rep = Report::new("C08", &a.tier, a.seed);
    let sink = Sink::new(6);
    use_small_generators();
    let thorough = a.tier == "thorough";
    let ocache: OracleCache = Mutex::new(FxHashMap::default());
    let onodes = AtomicU64::new(0);
    let searches = AtomicU64::new(0);
    let outcomes: Mutex<HashSet<(i16, MoveDesc)>> = Mutex::new(HashSet::new());

    // ---------- (a) brand-new context ----------
    let mut cases: Vec<CaseA> = Vec::new();
    let mut seen: HashSet<CKey> = HashSet::new();
    let roots = ["startpos", "kiwipete", "pos3", "pos4", "promo-race", "castle-base-w", "kqk-corner", "krk", "kpk", "ep-legal-both", "underpromo", "castle-mate", "ep-rank-pin", "pos5", "pos6", "double-check"];
    for (i, name) in roots.iter().enumerate() {
        let sd = TREE_SEEDS.iter().find(|s| s.name == *name).unwrap();
        let root = Pos::from_fen(sd.fen).unwrap();
        let heavy = root.legal_moves().len() > 30;
        let maxd = if thorough { if heavy { 3 } else { 4 } } else if heavy { 2 } else { 3 };
        for d in 1..=maxd {
            cases.push(CaseA { pos: root.clone(), depth: d, class: "seed-root" });
        }
        seen.insert(canon(&root));
        if thorough || i < 8 {
            for m in root.legal_moves() {
                let n = root.make(&m);
                if seen.insert(canon(&n)) {
                    for d in 1..=(if heavy { 2 } else if thorough { 3 } else { 2 }) {
                        cases.push(CaseA { pos: n.clone(), depth: d, class: "near-seed" });
                    }
                }
            }
        }
    }
    // mating material for Black as well: the colour-swapped rotated image of every endgame, and
    // two-rook / rook-and-queen mates at depth 6 and 7 (forced mates of different lengths inside
    // one search, for either colour)
    let deep_mates = ["2K5/8/3k2r1/r7/8/8/8/8 w - - 0 1", "2k5/8/3K2R1/R7/8/8/8/8 b - - 0 1", "8/8/8/8/8/5k2/1r6/3q2K1 w - - 0 1", "1K6/8/2k5/8/8/8/7r/6r1 b - - 0 1"];
    for fen in deep_mates {
        let root = Pos::from_fen(fen).unwrap();
        if !root.is_consistent() {
            eprintln!("MACHINERY-ERROR: inconsistent C08 endgame {}", fen);
            return 2;
        }
        for d in if thorough { vec![6u8, 7] } else { vec![6u8] } {
            cases.push(CaseA { pos: root.clone(), depth: d, class: "deep-mate" });
        }
    }
    for (_, fen) in ENDGAMES {
        let root = Pos::from_fen(fen).unwrap();
        for d in 3..=(if thorough { 6 } else { 5 }) {
            cases.push(CaseA { pos: root.clone(), depth: d, class: "small-endgame" });
            cases.push(CaseA { pos: root.mirrored_rot180(), depth: d, class: "small-endgame(colours swapped)" });
        }
        if thorough {
            for m in root.legal_moves() {
                let n = root.make(&m);
                for d in 3..=5 {
                    cases.push(CaseA { pos: n.clone(), depth: d, class: "small-endgame" });
                }
            }
        }
    }
    let next = AtomicUsize::new(0);
    let ncases = cases.len();
    std::thread::scope(|sc| {
        for _ in 0..8 {
            sc.spawn(|| loop {
                let i = next.fetch_add(1, Ordering::Relaxed);
                if i >= ncases {
                    break;
                }
                let c = &cases[i];
                let mut board = build_board(&c.pos);
                let mut ctx = SearchContext::new(c.depth);
                let mut g = MoveGenerator::new();
                let (out, _) = run_search(&mut board, &mut ctx, &mut g);
                searches.fetch_add(1, Ordering::Relaxed);
                let (vals, root) = oracle(&ocache, &c.pos, c.depth, &onodes);
                if let Outcome::Move(d, Some(s)) = &out {
                    outcomes.lock().unwrap().insert((*s, *d));
                }
                if let Some((cls, det)) = judge(&out, &vals, root, "brand-new-context") {
                    sink.push(Violation { prop: "C08".into(), class: cls, seed: c.pos.to_fen(), path: vec![], detail: format!("depth {} [{}]: {}", c.depth, c.class, det), extra: json!({"kind": "c08-a", "fen": c.pos.to_fen(), "depth": c.depth}) });
                }
            });
        }
    });
    rep.add("searches_with_brand_new_context", ncases as u64);

    // ---------- (b) reused context: all histories ----------
    let rounds = if thorough { 2 } else { 1 }; // number of (move, reply, search) extensions after the first search
    let mut hist_count = 0u64;
    let mut hist_samples = Vec::new();
    // (seed, position, search depth, rounds of move-reply-search after the first search)
    let mut jobs: Vec<(&str, &str, u8, usize)> = Vec::new();
    for (name, fen, dq, dt) in HIST_SEEDS {
        let maxd = if thorough { *dt } else { *dq };
        for depth in 1..=maxd {
            jobs.push((name, fen, depth, rounds));
        }
    }
    // material changes hands within two plies in these: the value the context saw for this side
    // in its previous search is far from (or exactly some distance from) the value now
    for (name, fen) in SWING_SEEDS {
        if !thorough && (name.starts_with("rook-ending") || *name == "q-vs-rp") {
            continue; // the heavier ones: thorough tier only
        }
        jobs.push((name, fen, 4, 1));
        if thorough && !(name.starts_with("rook-ending") || *name == "q-vs-rp") {
            jobs.push((name, fen, 5, 1));
        }
    }
    for (name, fen, depth, rounds) in jobs.iter() {
        let rounds = *rounds;
        let root = Pos::from_fen(fen).unwrap();
        if !root.is_consistent() {
            eprintln!("MACHINERY-ERROR: inconsistent C08 seed {}", name);
            return 2;
        }
        let depth = *depth;
        {
            // enumerate all histories root -m1-> -r1-> (search) [-m2-> -r2-> (search)]
            let mut histories: Vec<Vec<Move>> = vec![vec![]];
            for _ in 0..rounds {
                let mut nexth = Vec::new();
                for h in &histories {
                    let mut p = root.clone();
                    for m in h {
                        p = p.make(m);
                    }
                    for m1 in p.legal_moves() {
                        let p1 = p.make(&m1);
                        for r1 in p1.legal_moves() {
                            let mut hh = h.clone();
                            hh.push(m1);
                            hh.push(r1);
                            nexth.push(hh);
                        }
                    }
                }
                histories = nexth;
                // bound the second round: keep every history in thorough only for small seeds
                if histories.len() > 6000 {
                    let stride = histories.len() / 6000 + 1;
                    let total = histories.len();
                    histories = histories.into_iter().step_by(stride).collect();
                    rep.exhaustive = false;
                    rep.notes.push(format!("{} depth {}: {} two-round histories, every {}-th explored", name, depth, total, stride));
                }
            }
            if hist_samples.len() < 4 {
                hist_samples.push(json!({"seed": name, "search_depth": depth, "histories": histories.len(), "example": histories.last().map(|h| h.iter().map(uci).collect::<Vec<_>>())}));
            }
            hist_count += histories.len() as u64;
            let next = AtomicUsize::new(0);
            let nh = histories.len();
            let (histories, root) = (&histories, &root);
            std::thread::scope(|sc| {
                for _ in 0..8 {
                    sc.spawn(|| loop {
                        let i = next.fetch_add(1, Ordering::Relaxed);
                        if i >= nh {
                            break;
                        }
                        let h = &histories[i];
                        // one context and one generator carried through the whole history (as Game does)
                        let mut ctx = SearchContext::new(depth);
                        let mut g = MoveGenerator::new();
                        let mut pos = root.clone();
                        let mut board = build_board(&pos);
                        let mut played: Vec<String> = Vec::new();
                        let mut k = 0;
                        loop {
                            let (out, _) = run_search(&mut board, &mut ctx, &mut g);
                            searches.fetch_add(1, Ordering::Relaxed);
                            let (vals, rootv) = oracle(&ocache, &pos, depth, &onodes);
                            if let Outcome::Move(d, Some(s)) = &out {
                                outcomes.lock().unwrap().insert((*s, *d));
                            }
                            if let Some((cls, det)) = judge(&out, &vals, rootv, "reused-context") {
                                sink.push(Violation { prop: "C08".into(), class: cls, seed: root.to_fen(), path: played.clone(), detail: format!("search number {} of the history at depth {} in {}: {}", k / 2 + 1, depth, pos.to_fen(), det), extra: json!({"kind": "c08-b", "fen": root.to_fen(), "depth": depth, "history": h.iter().map(uci).collect::<Vec<_>>(), "searches_before": k / 2}) });
                                break;
                            }
                            if k >= h.len() {
                                break;
                            }
                            for m in &h[k..k + 2] {
                                let im = impl_move_from_model(m, pos.stm);
                                im.apply(&mut board).expect("history apply");
                                board.toggle_turn();
                                pos = pos.make(m);
                                played.push(uci(m));
                            }
                            k += 2;
                        }
                    });
                }
            });
        }
    }
    rep.add("histories_with_reused_context", hist_count);

    // ---------- (b') games sharing one context along every quiet king path (triangulations) ----------
    {
        let root = Pos::from_fen("7k/8/8/8/8/8/8/K7 w - - 0 1").unwrap();
        let allowed: Vec<Sq> = ["a1", "b1", "b2", "a2", "h8", "g8", "g7", "h7"].iter().map(|s| parse_sq(s).unwrap()).collect();
        let len = if thorough { 6 } else { 5 };
        let mut paths: Vec<Vec<Move>> = vec![vec![]];
        for _ in 0..len {
            let mut next = Vec::new();
            for h in &paths {
                let mut p = root.clone();
                for m in h {
                    p = p.make(m);
                }
                for m in p.legal_moves().into_iter().filter(|m| allowed.contains(&m.from) && allowed.contains(&m.to)) {
                    let mut t = h.clone();
                    t.push(m);
                    next.push(t);
                }
            }
            paths = next;
        }
        let npaths = paths.len() as u64;
        let next = AtomicUsize::new(0);
        let (paths, root) = (&paths, &root);
        std::thread::scope(|sc| {
            for _ in 0..8 {
                sc.spawn(|| loop {
                    let i = next.fetch_add(1, Ordering::Relaxed);
                    if i >= paths.len() {
                        break;
                    }
                    for depth in [1u8, 2, 3] {
                        let mut ctx = SearchContext::new(depth);
                        let mut g = MoveGenerator::new();
                        let mut pos = root.clone();
                        let mut board = build_board(&pos);
                        let mut played: Vec<String> = Vec::new();
                        for k in 0..=paths[i].len() {
                            let (out, _) = run_search(&mut board, &mut ctx, &mut g);
                            searches.fetch_add(1, Ordering::Relaxed);
                            let (vals, rootv) = oracle(&ocache, &pos, depth, &onodes);
                            if let Some((cls, det)) = judge(&out, &vals, rootv, "reused-context") {
                                sink.push(Violation { prop: "C08".into(), class: cls, seed: root.to_fen(), path: played.clone(), detail: format!("search number {} of a king-path game at depth {} in {}: {}", k + 1, depth, pos.to_fen(), det), extra: json!({"kind": "c08-path", "fen": root.to_fen(), "depth": depth, "history": paths[i].iter().map(uci).collect::<Vec<_>>()}) });
                                break;
                            }
                            if k < paths[i].len() {
                                let m = &paths[i][k];
                                impl_move_from_model(m, pos.stm).apply(&mut board).expect("path apply");
                                board.toggle_turn();
                                pos = pos.make(m);
                                played.push(uci(m));
                            }
                        }
                    }
                });
            }
        });
        rep.add("king_path_games_with_reused_context", npaths);
    }

    // ---------- engine-vs-engine game lines with one context ----------
    let mut line_searches = 0u64;
    for (name, fen, depth, plies) in [("startpos", HIST_SEEDS[0].1, 2u8, 24usize), ("startpos", HIST_SEEDS[0].1, 3u8, if thorough { 24 } else { 10 }), ("krk", HIST_SEEDS[1].1, 4u8, 16)] {
        let root = Pos::from_fen(fen).unwrap();
        let mut pos = root.clone();
        let mut board = build_board(&pos);
        let mut ctx = SearchContext::new(depth);
        let mut g = MoveGenerator::new();
        let mut played: Vec<String> = Vec::new();
        for _ in 0..plies {
            if pos.legal_moves().is_empty() || pos.halfmove > 80 {
                break;
            }
            let (out, _) = run_search(&mut board, &mut ctx, &mut g);
            line_searches += 1;
            let (vals, rootv) = oracle(&ocache, &pos, depth, &onodes);
            if let Some((cls, det)) = judge(&out, &vals, rootv, "reused-context") {
                sink.push(Violation { prop: "C08".into(), class: cls, seed: root.to_fen(), path: played.clone(), detail: format!("engine-vs-engine line from {} at depth {}, ply {}: {}", name, depth, played.len(), det), extra: json!({"kind": "c08-line", "fen": root.to_fen(), "depth": depth, "plies": plies}) });
                break;
            }
            if let Outcome::Move(d, _) = out {
                let m = vals.iter().find(|(m, _)| describe_model(m) == d).unwrap().0;
                let im = impl_move_from_model(&m, pos.stm);
                im.apply(&mut board).expect("line apply");
                board.toggle_turn();
                pos = pos.make(&m);
                played.push(uci(&m));
            } else {
                break;
            }
        }
    }
    rep.add("searches_in_engine_vs_engine_lines", line_searches);

    let ns = searches.load(Ordering::Relaxed) + line_searches;
    rep.states = ns;
    rep.transitions = onodes.load(Ordering::Relaxed);
    rep.traces = ns;
    rep.add("search_calls_compared_with_minimax", ns);
    rep.add("oracle_minimax_nodes", onodes.load(Ordering::Relaxed));
    rep.add("distinct_(score,move)_outcomes", outcomes.lock().unwrap().len() as u64);
    rep.samples = hist_samples;
    rep.samples.push(json!({"part": "a", "cases": ncases, "example": cases.last().map(|c| json!({"fen": c.pos.to_fen(), "depth": c.depth, "class": c.class}))}));
    rep.bounds = json!({"brand_new_context_cases": ncases, "history_rounds": rounds, "history_seeds": HIST_SEEDS.iter().map(|s| s.0).collect::<Vec<_>>(), "swing_seeds_depth_4_(thorough: all seven, the four small ones also at depth 5; one round)": SWING_SEEDS.iter().filter(|s| thorough || !(s.0.starts_with("rook-ending") || s.0 == "q-vs-rp")).map(|s| s.1).collect::<Vec<_>>(), "oracle": "plain minimax at depths 1..3; memoised minimax from depth 4, cross-checked against the plain one on the first 12 roots", "endgame_depths": if thorough { "3..6" } else { "3..5" }});
    rep.rule = "state = (position, depth, prior searches of the context); each search is one real alpha_beta_search; its score and move are compared with an exhaustive cache-free minimax over the model's moves with the engine's leaf evaluation".into();
    rep.assumptions = vec!["half-move clocks stay far below the draw threshold (seeds start at 0)".into(), "leaf scores come from the engine's own evaluate::score (its correctness is C18's / C06's subject)".into(), "reduced LRU capacity for generators (hook)".into()];
    rep.mandatory = vec!["searches_with_brand_new_context".into(), "histories_with_reused_context".into()];
    rep.finish(&sink)
}

pub fn replay(v: &serde_json::Value) -> i32 {
    use_small_generators();
    let kind = v["extra"]["kind"].as_str().unwrap_or("");
    let root = match Pos::from_fen(v["extra"]["fen"].as_str().unwrap_or("")) {
        Ok(p) => p,
        Err(e) => {
            eprintln!("MACHINERY-ERROR: {}", e);
            return 2;
        }
    };
    let depth = v["extra"]["depth"].as_u64().unwrap_or(1) as u8;
    let ocache: OracleCache = Mutex::new(FxHashMap::default());
    let onodes = AtomicU64::new(0);
    let run_once = || -> Option<String> {
        let mut ctx = SearchContext::new(depth);
        let mut g = MoveGenerator::new();
        let mut pos = root.clone();
        let mut board = build_board(&pos);
        let hist: Vec<String> = v["extra"]["history"].as_array().map(|a| a.iter().filter_map(|x| x.as_str().map(|s| s.to_string())).collect()).unwrap_or_default();
        let mut k = 0;
        loop {
            let (out, _) = run_search(&mut board, &mut ctx, &mut g);
            let (vals, rootv) = oracle(&ocache, &pos, depth, &onodes);
            if let Some((cls, det)) = judge(&out, &vals, rootv, if kind == "c08-a" { "brand-new-context" } else { "reused-context" }) {
                return Some(format!("{} :: {}", cls, det));
            }
            if kind == "c08-line" {
                if let Outcome::Move(d, _) = out {
                    if k >= v["extra"]["plies"].as_u64().unwrap_or(0) as usize {
                        return None;
                    }
                    let m = vals.iter().find(|(m, _)| describe_model(m) == d).unwrap().0;
                    impl_move_from_model(&m, pos.stm).apply(&mut board).unwrap();
                    board.toggle_turn();
                    pos = pos.make(&m);
                    k += 1;
                    continue;
                }
                return None;
            }
            if k >= hist.len() {
                return None;
            }
            let stride = if kind == "c08-path" { 1 } else { 2 };
            for t in &hist[k..(k + stride).min(hist.len())] {
                let m = pos.legal_moves().into_iter().find(|m| uci(m) == *t).expect("replay history");
                impl_move_from_model(&m, pos.stm).apply(&mut board).unwrap();
                board.toggle_turn();
                pos = pos.make(&m);
            }
            k += stride;
        }
    };
    let (a, b) = (run_once(), run_once());
    if a != b {
        eprintln!("MACHINERY-ERROR: replay is not deterministic: {:?} vs {:?}", a, b);
        return 2;
    }
    match a {
        Some(s) => {
            println!("REPRODUCED property=C08 {}", s);
            1
        }
        None => {
            println!("NOT-REPRODUCED property=C08");
            0
        }
    }
}
