//! C09, lock-granular part: deadlock freedom of the shared search state at the granularity of
//! individual lock acquisitions, by *model + conformance*:
//!  1. trace extraction: real free-running searches (several positions, depths and pool sizes)
//!     are observed through the lock hook events; every thread's event stream is checked for
//!     well-formedness and cut into *lock shapes* (maximal stretches during which the thread
//!     holds or requests at least one lock);
//!  2. a Promela model is generated from the set of shapes observed: N tasks, each forever
//!     choosing any observed shape and executing its acquire / release steps on reader-writer
//!     locks, once with writer-preferring locks (the policy of std's futex RwLock: readers
//!     queue behind waiting writers) and once with reader-preferring ones;
//!  3. spin explores the model exhaustively; an invalid end state (every task blocked) is a
//!     possible deadlock of the code.
//! Binding: the model's alphabet IS the set of shapes the implementation exhibited (every real
//! trace segment is a word of the model by construction); a shape the runs did not exercise is
//! not covered (stated in the evidence).

use crate::bind::*;
use crate::refchess::*;
use crate::report::{verif_dir, Report, Sink, Violation};
use crate::search::run_search;
use chess::alpha_beta_searcher::SearchContext;
use chess::move_generator::MoveGenerator;
use chess::verif_hooks::Event;
use rustc_hash::FxHashMap;
use serde_json::json;
use std::collections::BTreeMap;
use std::sync::atomic::{AtomicBool, Ordering};
use std::sync::Mutex;
use std::thread::ThreadId;

#[derive(Clone, Copy, Debug, PartialEq, Eq)]
pub enum LockEv {
    Want(&'static str, bool),
    Got(&'static str, bool),
    Rel(&'static str, bool),
}

pub static RECORD: AtomicBool = AtomicBool::new(false);
static LOG: Mutex<Option<FxHashMap<ThreadId, Vec<LockEv>>>> = Mutex::new(None);

/// called by the global observer for lock events
pub fn record(ev: &Event) {
    if !RECORD.load(Ordering::Relaxed) {
        return;
    }
    let e = match ev {
        Event::LockWillAcquire { lock, write } => LockEv::Want(lock, *write),
        Event::LockAcquired { lock, write } => LockEv::Got(lock, *write),
        Event::LockReleased { lock, write } => LockEv::Rel(lock, *write),
        _ => return,
    };
    let mut g = LOG.lock().unwrap();
    g.get_or_insert_with(FxHashMap::default).entry(std::thread::current().id()).or_default().push(e);
}

fn step_text(e: &LockEv) -> String {
    match e {
        LockEv::Want(l, w) => format!("want {}.{}", l, if *w { "W" } else { "R" }),
        LockEv::Got(l, w) => format!("got {}.{}", l, if *w { "W" } else { "R" }),
        LockEv::Rel(l, w) => format!("rel {}.{}", l, if *w { "W" } else { "R" }),
    }
}

/// cut one thread's stream into shapes; Err on a malformed stream
fn shapes_of(stream: &[LockEv]) -> Result<Vec<Vec<LockEv>>, String> {
    let mut out = Vec::new();
    let mut cur: Vec<LockEv> = Vec::new();
    let mut held: Vec<(&'static str, bool)> = Vec::new();
    let mut wanting: Option<(&'static str, bool)> = None;
    for e in stream {
        match *e {
            LockEv::Want(l, w) => {
                if wanting.is_some() {
                    return Err(format!("request of {} while another request is pending", l));
                }
                wanting = Some((l, w));
            }
            LockEv::Got(l, w) => {
                if wanting != Some((l, w)) {
                    return Err(format!("acquired {} without a matching request", l));
                }
                wanting = None;
                held.push((l, w));
            }
            LockEv::Rel(l, w) => {
                if held.last() != Some(&(l, w)) {
                    return Err(format!("released {} which is not the innermost lock held ({:?})", l, held));
                }
                held.pop();
            }
        }
        cur.push(*e);
        if held.is_empty() && wanting.is_none() {
            out.push(std::mem::take(&mut cur));
        }
    }
    if !cur.is_empty() {
        return Err("stream ends inside a lock shape".into());
    }
    Ok(out)
}

fn promela(shapes: &[Vec<LockEv>], locks: &[&'static str], ntasks: usize, writer_pref: bool) -> String {
    let idx = |l: &str| locks.iter().position(|x| *x == l).unwrap();
    let mut s = String::new();
    s.push_str(&format!("/* generated from the lock shapes observed on the real search (policy: {}) */\n", if writer_pref { "writer-preferring" } else { "reader-preferring" }));
    s.push_str(&format!("#define NL {}\nbyte readers[NL];\nbit writer[NL];\nbyte wwait[NL];\n", locks.len()));
    s.push_str("inline rlock(l) { atomic { (writer[l] == 0");
    if writer_pref {
        s.push_str(" && wwait[l] == 0");
    }
    s.push_str(") -> readers[l]++ } }\n");
    s.push_str("inline runlock(l) { atomic { readers[l]-- } }\n");
    s.push_str("inline wlock(l) { atomic { wwait[l]++ }; atomic { (writer[l] == 0 && readers[l] == 0) -> writer[l] = 1; wwait[l]-- } }\n");
    s.push_str("inline wunlock(l) { atomic { writer[l] = 0 } }\n");
    s.push_str("proctype task() {\n  do\n");
    for sh in shapes {
        s.push_str("  :: ");
        let mut first = true;
        for e in sh {
            let stmt = match e {
                LockEv::Want(_, _) => continue, // the request itself is the blocking statement below
                LockEv::Got(l, true) => format!("wlock({})", idx(l)),
                LockEv::Got(l, false) => format!("rlock({})", idx(l)),
                LockEv::Rel(l, true) => format!("wunlock({})", idx(l)),
                LockEv::Rel(l, false) => format!("runlock({})", idx(l)),
            };
            if !first {
                s.push_str("; ");
            }
            first = false;
            s.push_str(&stmt);
        }
        s.push('\n');
    }
    s.push_str("  od\n}\n");
    s.push_str(&format!("init {{ atomic {{ byte i = 0; do :: i < {} -> run task(); i++ :: else -> break od }} }}\n", ntasks));
    s
}

struct SpinResult {
    errors: u64,
    states: u64,
    transitions: u64,
    trail: Option<String>,
}

fn run_spin(dir: &str, name: &str, model: &str) -> Result<SpinResult, String> {
    std::fs::create_dir_all(dir).map_err(|e| e.to_string())?;
    let pml = format!("{}/{}.pml", dir, name);
    std::fs::write(&pml, model).map_err(|e| e.to_string())?;
    let run = |cmd: &str, args: &[&str]| -> Result<String, String> {
        let o = std::process::Command::new(cmd).args(args).current_dir(dir).output().map_err(|e| format!("cannot run {}: {}", cmd, e))?;
        Ok(format!("{}{}", String::from_utf8_lossy(&o.stdout), String::from_utf8_lossy(&o.stderr)))
    };
    let _ = std::fs::remove_file(format!("{}/{}.pml.trail", dir, name));
    run("spin", &["-a", &format!("{}.pml", name)])?;
    let cc = run("gcc", &["-O2", "-DSAFETY", "-o", &format!("pan_{}", name), "pan.c"])?;
    if !std::path::Path::new(&format!("{}/pan_{}", dir, name)).exists() {
        return Err(format!("gcc failed on the generated verifier: {}", cc.lines().take(5).collect::<Vec<_>>().join(" | ")));
    }
    let out = run(&format!("{}/pan_{}", dir, name), &["-m200000"])?;
    let num = |key: &str| -> u64 {
        out.lines().find(|l| l.contains(key)).and_then(|l| l.split_whitespace().next()).and_then(|x| x.parse::<f64>().ok()).map(|f| f as u64).unwrap_or(0)
    };
    let errors = out.lines().find(|l| l.contains("errors:")).and_then(|l| l.split("errors:").nth(1)).and_then(|x| x.trim().split_whitespace().next().and_then(|y| y.parse::<u64>().ok())).ok_or_else(|| format!("cannot read spin's verdict: {}", out.lines().take(8).collect::<Vec<_>>().join(" | ")))?;
    let states = num("states, stored");
    let transitions = num("transitions (=");
    if out.contains("max search depth too small") {
        return Err("spin: search depth bound hit (not exhaustive)".into());
    }
    let trail = if errors > 0 { Some(run("spin", &["-t", "-p", &format!("{}.pml", name)])?) } else { None };
    Ok(SpinResult { errors, states, transitions, trail })
}

const TRACE_CONFIGS: &[(&str, u8)] = &[
    ("8/8/8/8/8/4k3/4P3/4K3 w - - 0 1", 4),
    ("8/8/8/8/8/k7/8/K6R b - - 0 1", 4),
    ("4k3/8/8/2PpP3/8/8/8/4K3 w - d6 0 1", 3),
    ("rnbqkbnr/pppppppp/8/8/8/8/PPPPPPPP/RNBQKBNR w KQkq - 0 1", 2),
    ("r3k2r/p1ppqpb1/bn2pnp1/3PN3/1p2P3/2N2Q1p/PPPBBPPP/R3K2R w KQkq - 0 1", 2),
];

/// Returns Err for machinery errors.
pub fn run(rep: &mut Report, sink: &Sink) -> Result<(), String> {
    // ---- 1. trace extraction ----
    *LOG.lock().unwrap() = Some(FxHashMap::default());
    RECORD.store(true, Ordering::SeqCst);
    let mut searches = 0u64;
    // a real deadlock would hang these free-running searches: run them under a watchdog
    let progress = std::sync::Arc::new(std::sync::atomic::AtomicU64::new(0));
    let done = std::sync::Arc::new(AtomicBool::new(false));
    {
        let (progress, done) = (progress.clone(), done.clone());
        let (tier, seed) = (rep.tier.clone(), rep.seed);
        std::thread::spawn(move || {
            let mut last = (0u64, std::time::Instant::now());
            while !done.load(Ordering::SeqCst) {
                std::thread::sleep(std::time::Duration::from_millis(250));
                let p = progress.load(Ordering::SeqCst);
                if p != last.0 {
                    last = (p, std::time::Instant::now());
                } else if last.1.elapsed().as_secs() > 180 {
                    let v = Violation { prop: "C09".into(), class: "free-running-search-hangs".into(), seed: format!("trace configuration number {}", p), path: vec![], detail: "a free-running search did not return within 180 s while its lock trace was being recorded (deadlock?)".into(), extra: json!({"kind": "c09-free-hang"}) };
                    crate::report::emergency_violation("C09", &tier, seed, &v, p);
                }
            }
        });
    }
    for (fen, depth) in TRACE_CONFIGS {
        let pos = Pos::from_fen(fen).unwrap();
        for size in [1usize, 3, 16] {
            let pool = rayon::ThreadPoolBuilder::new().num_threads(size).build().unwrap();
            let mut ctx = SearchContext::new(*depth);
            let mut b = build_board(&pos);
            // two searches with the same context: the second one starts from a warm cache
            for _ in 0..2 {
                let _ = pool.install(|| run_search(&mut b, &mut ctx, &mut MoveGenerator::new()));
                searches += 1;
                progress.fetch_add(1, Ordering::SeqCst);
            }
        }
    }
    done.store(true, Ordering::SeqCst);
    RECORD.store(false, Ordering::SeqCst);
    let log = LOG.lock().unwrap().take().unwrap_or_default();
    let mut shape_count: BTreeMap<String, (u64, Vec<LockEv>)> = BTreeMap::new();
    let mut events = 0u64;
    let mut segments = 0u64;
    for (_tid, stream) in log.iter() {
        events += stream.len() as u64;
        let shs = shapes_of(stream).map_err(|e| format!("lock trace of the real search is malformed: {}", e))?;
        for sh in shs {
            segments += 1;
            let key = sh.iter().map(step_text).collect::<Vec<_>>().join("; ");
            shape_count.entry(key).or_insert((0, sh)).0 += 1;
        }
    }
    if shape_count.is_empty() {
        return Err("no lock events were recorded (hooks not compiled in?)".into());
    }
    let mut locks: Vec<&'static str> = Vec::new();
    for (_, (_, sh)) in shape_count.iter() {
        for e in sh {
            let l = match e {
                LockEv::Want(l, _) | LockEv::Got(l, _) | LockEv::Rel(l, _) => *l,
            };
            if !locks.contains(&l) {
                locks.push(l);
            }
        }
    }
    let shapes: Vec<Vec<LockEv>> = shape_count.values().map(|v| v.1.clone()).collect();
    rep.add("lock_events_recorded", events);
    rep.add("lock_trace_segments_conforming_to_the_model", segments);
    rep.add("distinct_lock_shapes", shapes.len() as u64);
    rep.add("free_running_searches_traced", searches);

    // ---- 2 + 3. model generation and exhaustive exploration ----
    let dir = format!("{}/target/spin-c09", verif_dir());
    let ntasks = 3;
    let mut spin_summary = Vec::new();
    for (name, wp) in [("writer_pref", true), ("reader_pref", false)] {
        let model = promela(&shapes, &locks, ntasks, wp);
        let r = run_spin(&dir, name, &model)?;
        rep.states += r.states;
        rep.transitions += r.transitions;
        rep.add("spin_states_stored", r.states);
        rep.add("spin_transitions", r.transitions);
        spin_summary.push(json!({"policy": name, "tasks": ntasks, "states": r.states, "transitions": r.transitions, "errors": r.errors}));
        if r.errors > 0 {
            let tr = r.trail.unwrap_or_default();
            sink.push(Violation {
                prop: "C09".into(),
                class: "lock-order-allows-deadlock".into(),
                seed: format!("lock shapes: {}", shape_count.keys().cloned().collect::<Vec<_>>().join(" | ")),
                path: vec![],
                detail: format!("with {} locks, {} tasks executing the lock shapes observed on the real search can all block; spin trail (last lines): {}", name.replace('_', "-"), ntasks, tr.lines().rev().take(12).collect::<Vec<_>>().into_iter().rev().collect::<Vec<_>>().join(" / ")),
                extra: json!({"kind": "c09-locks", "policy": name, "model": model}),
            });
        }
    }
    rep.samples.push(json!({"lock_granular_model": {"locks": locks, "shapes": shape_count.iter().map(|(k, v)| json!({"shape": k, "occurrences": v.0})).collect::<Vec<_>>(), "spin": spin_summary}}));
    rep.mandatory.push("lock_events_recorded".into());
    rep.mandatory.push("spin_states_stored".into());
    Ok(())
}

pub fn replay(v: &serde_json::Value) -> i32 {
    let model = v["extra"]["model"].as_str().unwrap_or("");
    let dir = format!("{}/target/spin-c09-replay", verif_dir());
    let a = run_spin(&dir, "replay", model).map(|r| r.errors);
    let b = run_spin(&dir, "replay", model).map(|r| r.errors);
    match (a, b) {
        (Ok(x), Ok(y)) if x == y => {
            if x > 0 {
                println!("REPRODUCED property=C09 class=lock-order-allows-deadlock (spin reports {} error(s) on the recorded model)", x);
                1
            } else {
                println!("NOT-REPRODUCED property=C09");
                0
            }
        }
        other => {
            eprintln!("MACHINERY-ERROR: {:?}", other);
            2
        }
    }
}

/// Self-test of the lock-granular pipeline: a shape set with an inverted nesting must make spin
/// report a deadlock, the shape set of the pinned code must not.
pub fn selftest() -> Result<(), String> {
    use LockEv::*;
    let c = "search_result_cache";
    let h = "cache_hit_count";
    let good: Vec<Vec<LockEv>> = vec![vec![Want(c, false), Got(c, false), Want(h, true), Got(h, true), Rel(h, true), Rel(c, false)], vec![Want(c, true), Got(c, true), Rel(c, true)]];
    let mut bad = good.clone();
    bad.push(vec![Want(h, true), Got(h, true), Want(c, true), Got(c, true), Rel(c, true), Rel(h, true)]);
    let dir = format!("{}/target/spin-selftest", verif_dir());
    let locks = [c, h];
    let g = run_spin(&dir, "good", &promela(&good, &locks, 3, true))?;
    let b = run_spin(&dir, "bad", &promela(&bad, &locks, 3, true))?;
    if g.errors != 0 || b.errors == 0 {
        return Err(format!("lock-model self-test failed: consistent order gives {} errors, inverted order gives {} errors", g.errors, b.errors));
    }
    Ok(())
}
