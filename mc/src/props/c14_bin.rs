//! C14 part 4: the real `chess pvp` binary (built from /repo's working tree) driven over stdin
//! along scripted games; the printed `turn:` lines and boards are parsed and compared with the
//! reference model after every typed line.  The driver always stops reading at the expected
//! prompt and kills the process at the end (at EOF the program's loop spins on empty input).

use crate::refchess::san::san;
use crate::refchess::*;
use crate::report::{Sink, Violation};
use serde_json::json;
use std::io::{BufRead, BufReader, Write};
use std::process::{Child, ChildStdin, Command, Stdio};
use std::sync::mpsc::{channel, Receiver};
use std::time::Duration;


pub fn build_binary() -> Result<String, String> {
    let bin_target = format!("{}/target/chessbin", crate::report::verif_dir());
    let bin_target = bin_target.as_str();
    let st = Command::new("cargo")
        .args(["build", "--release", "--offline", "--bin", "chess"])
        .current_dir("/repo")
        .env("CARGO_TARGET_DIR", bin_target)
        .env("CARGO_PROFILE_RELEASE_LTO", "false")
        .env("CARGO_PROFILE_RELEASE_CODEGEN_UNITS", "16")
        .env("CARGO_PROFILE_RELEASE_DEBUG", "false")
        .env("CARGO_NET_OFFLINE", "true")
        .stdout(Stdio::null())
        .stderr(Stdio::piped())
        .output()
        .map_err(|e| format!("cannot run cargo: {}", e))?;
    if !st.status.success() {
        return Err(format!("building the chess binary failed: {}", String::from_utf8_lossy(&st.stderr).lines().rev().take(15).collect::<Vec<_>>().join(" | ")));
    }
    Ok(format!("{}/release/chess", bin_target))
}

struct Pvp {
    child: Child,
    stdin: ChildStdin,
    rx: Receiver<String>,
}

impl Pvp {
    fn start(bin: &str) -> Result<Pvp, String> {
        let mut child = Command::new(bin).arg("pvp").stdin(Stdio::piped()).stdout(Stdio::piped()).stderr(Stdio::null()).spawn().map_err(|e| format!("cannot start {}: {}", bin, e))?;
        let stdin = child.stdin.take().unwrap();
        let out = child.stdout.take().unwrap();
        let (tx, rx) = channel();
        std::thread::spawn(move || {
            for line in BufReader::new(out).lines() {
                match line {
                    Ok(l) => {
                        if tx.send(l).is_err() {
                            break;
                        }
                    }
                    Err(_) => break,
                }
            }
        });
        Ok(Pvp { child, stdin, rx })
    }

    /// read until a full `turn:` + 8 board rows block (Ok(Some)) or the program ends (Ok(None));
    /// every other line is returned as a message
    fn read_block(&mut self) -> Result<(Option<(String, Vec<String>)>, Vec<String>), String> {
        let mut msgs = Vec::new();
        loop {
            match self.rx.recv_timeout(Duration::from_secs(20)) {
                Ok(l) => {
                    if let Some(t) = l.strip_prefix("turn: ") {
                        let mut rows = Vec::new();
                        for _ in 0..8 {
                            match self.rx.recv_timeout(Duration::from_secs(20)) {
                                Ok(r) => rows.push(r),
                                Err(_) => return Err("board rows missing after a turn line".into()),
                            }
                        }
                        return Ok((Some((t.to_string(), rows)), msgs));
                    }
                    msgs.push(l);
                }
                Err(std::sync::mpsc::RecvTimeoutError::Disconnected) => return Ok((None, msgs)),
                Err(std::sync::mpsc::RecvTimeoutError::Timeout) => return Err(format!("no output within 20 s (messages so far: {:?})", msgs)),
            }
        }
    }

    fn type_line(&mut self, l: &str) -> Result<(), String> {
        writeln!(self.stdin, "{}", l).and_then(|_| self.stdin.flush()).map_err(|e| format!("cannot write to the program: {}", e))
    }
}

impl Drop for Pvp {
    fn drop(&mut self) {
        let _ = self.child.kill();
        let _ = self.child.wait();
    }
}

fn glyph(c: char) -> Option<Option<(Kind, Side)>> {
    Some(match c {
        '.' => None,
        '♗' => Some((Kind::Bishop, Side::Black)),
        '♝' => Some((Kind::Bishop, Side::White)),
        '♔' => Some((Kind::King, Side::Black)),
        '♚' => Some((Kind::King, Side::White)),
        '♘' => Some((Kind::Knight, Side::Black)),
        '♞' => Some((Kind::Knight, Side::White)),
        '♙' => Some((Kind::Pawn, Side::Black)),
        '♟' => Some((Kind::Pawn, Side::White)),
        '♕' => Some((Kind::Queen, Side::Black)),
        '♛' => Some((Kind::Queen, Side::White)),
        '♖' => Some((Kind::Rook, Side::Black)),
        '♜' => Some((Kind::Rook, Side::White)),
        _ => return None,
    })
}

fn board_matches(rows: &[String], turn: &str, p: &Pos) -> Result<(), String> {
    let want_turn = if p.stm == Side::White { "white" } else { "black" };
    if turn != want_turn {
        return Err(format!("program says turn: {}, the rules say {}", turn, want_turn));
    }
    for (i, row) in rows.iter().enumerate() {
        let rank = 7 - i;
        let cs: Vec<char> = row.chars().collect();
        if cs.len() != 8 {
            return Err(format!("board row {:?} does not have 8 cells", row));
        }
        for (f, c) in cs.iter().enumerate() {
            let got = glyph(*c).ok_or_else(|| format!("unknown glyph {:?}", c))?;
            if got != p.sq[rank * 8 + f] {
                return Err(format!("square {} shows {:?}, the rules give {:?}", sq_name((rank * 8 + f) as u8), got, p.sq[rank * 8 + f]));
            }
        }
    }
    Ok(())
}

const GAMES: &[(&str, &[&str])] = &[
    ("scholars-mate", &["e4", "e5", "Qh5", "Nc6", "Bc4", "Nf6", "Qxf7#"]),
    ("castle-ep", &["e4", "e5", "Nf3", "Nc6", "Bc4", "Bc5", "O-O", "Nf6", "d4", "exd4", "e5", "d5", "exd6", "O-O", "dxc7", "Qxc7", "Re1", "Bg4", "Nbd2", "Rad8"]),
    ("promotion-capture", &["a4", "b5", "axb5", "a6", "bxa6", "Bb7", "axb7", "Nc6", "bxa8=Q", "Qxa8", "Ra3", "Qa5"]),
    ("coordinates-and-junk", &["e2e4", "hello", "e7e5", "e2e5", "Ke7", "O-O", "g1f3", "Nf3", "b8c6", "Nc6", "f1c4", "f8c5", "e1g1", "O-O-O", "g8f6", "d2d4", "e5d4", "e4e5", "d7d5", "e5d6", "", "x", "e8g8"]),
    ("queenside-castles", &["d4", "d5", "Nc3", "Nc6", "Bf4", "Bf5", "Qd2", "Qd7", "O-O-O", "O-O-O", "Kb1", "Kb8"]),
];

pub fn run_binary(sink: &Sink) -> Result<u64, String> {
    let bin = build_binary()?;
    let mut typed = 0u64;
    for (name, script) in GAMES {
        let mut pvp = Pvp::start(&bin)?;
        let mut pos = Pos::startpos();
        let viol = |class: &str, line: &str, detail: String, pos: &Pos| {
            sink.push(Violation { prop: "C14".into(), class: class.into(), seed: Pos::startpos().to_fen(), path: script.iter().map(|s| s.to_string()).collect(), detail: format!("game {} typed line {:?} in {}: {}", name, line, pos.to_fen(), detail), extra: json!({"kind": "c14-binary", "game": name, "line": line}) });
        };
        // initial prompt
        match pvp.read_block()? {
            (Some((t, rows)), _) => {
                if let Err(e) = board_matches(&rows, &t, &pos) {
                    viol("binary-shows-wrong-position", "(start)", e, &pos);
                }
            }
            (None, m) => return Err(format!("the program ended before the first prompt: {:?}", m)),
        }
        for line in script.iter() {
            let legal = pos.legal_moves();
            // what does the line denote?
            let by_label = legal.iter().find(|m| san(&pos, m, &legal) == *line).cloned();
            let by_coord = if line.len() == 4 { legal.iter().find(|m| format!("{}{}", sq_name(m.from), sq_name(m.to)) == *line && !matches!(m.kind, MoveKind::Promotion(k) if k != Kind::Queen)).cloned() } else { None };
            let want = by_label.or(by_coord);
            pvp.type_line(line)?;
            typed += 1;
            let next = match &want {
                Some(m) => pos.make(m),
                None => pos.clone(),
            };
            let (blk, msgs) = pvp.read_block()?;
            match blk {
                Some((t, rows)) => {
                    if let Err(e) = board_matches(&rows, &t, &next) {
                        let cls = if want.is_some() { "binary-did-not-play-the-typed-legal-move" } else { "binary-changed-state-on-rejected-input" };
                        viol(cls, line, format!("{} (messages: {:?})", e, msgs), &pos);
                        break;
                    }
                    if want.is_none() && !msgs.iter().any(|m| m.contains("error") || m.contains("invalid")) {
                        viol("binary-silent-on-rejected-input", line, format!("messages: {:?}", msgs), &pos);
                    }
                }
                None => {
                    return Err(format!("game {}: the program ended unexpectedly after {:?}: {:?}", name, line, msgs));
                }
            }
            pos = next;
            if pos.legal_moves().is_empty() {
                // the program must announce the end and exit
                let want_msg = if pos.in_check(pos.stm) { "checkmate!" } else { "stalemate!" };
                let mut all = Vec::new();
                loop {
                    match pvp.rx.recv_timeout(Duration::from_secs(10)) {
                        Ok(l) => all.push(l),
                        Err(_) => break,
                    }
                }
                if !all.iter().any(|m| m.contains(want_msg)) {
                    viol("binary-does-not-announce-game-end", line, format!("expected {:?}, got {:?}", want_msg, all), &pos);
                }
                break;
            }
        }
    }
    Ok(typed)
}
