//! C07 — search always answers with a legal move (or the declared error) and leaves the
//! caller's board untouched; never panics or hangs.
//!
//! Enumerated: (position, depth, pool size) over: every state within d plies of a seed list,
//! every mated / stalemated / single-legal-move / in-check state collected from the tree seeds
//! (capped per class, cap reported), depth 0..3, rayon pool sizes 1,2,3,8,16,64 on a subset.

use crate::bind::*;
use crate::refchess::*;
use crate::report::{emergency_violation, Report, Sink, Violation};
use crate::search::*;
use crate::seeds::*;
use crate::Args;
use chess::alpha_beta_searcher::SearchContext;
use chess::move_generator::MoveGenerator;
use serde_json::json;
use std::collections::HashSet;
use std::sync::atomic::{AtomicU64, AtomicUsize, Ordering};
use std::sync::Mutex;

const ROOTS: &[&str] = &["startpos", "kiwipete", "pos3", "pos4", "promo-race", "castle-base-w", "kqk-corner", "krk", "kpk", "ep-legal-both", "in-check-single", "mated", "kpk-stalemate", "underpromo", "castle-mate", "ep-rank-pin"];

#[derive(Clone)]
struct Case {
    pos: Pos,
    depth: u8,
    pool: usize, // 0 = global pool
    class: &'static str,
    /// how many times the position is registered for repetition before the search (0..3)
    registered: u8,
    /// moves played before the search, with one search before each of them, all sharing one
    /// context and one generator (as `Game` does)
    history: Vec<Move>,
    /// every position one move away has already been registered twice (a game inside a repetition
    /// cycle: whatever is played completes a threefold repetition)
    successors_seen_twice: bool,
}

fn check_case(c: &Case, pools: &[(usize, rayon::ThreadPool)]) -> (Option<Violation>, &'static str) {
    let mut board = build_board(&c.pos);
    for _ in 0..c.registered {
        board.count_current_position();
    }
    if c.successors_seen_twice {
        for m in c.pos.legal_moves() {
            let im = crate::walk::impl_move_from_model(&m, c.pos.stm);
            im.apply(&mut board).expect("successor apply");
            board.toggle_turn();
            board.count_current_position();
            board.count_current_position();
            board.toggle_turn();
            im.undo(&mut board).expect("successor undo");
        }
    }
    let mut ctx = SearchContext::new(c.depth);
    let mut g = MoveGenerator::new();
    let extra = json!({"kind": "c07", "fen": c.pos.to_fen(), "depth": c.depth, "pool": c.pool, "registered": c.registered, "successors_seen_twice": c.successors_seen_twice, "history": c.history.iter().map(uci).collect::<Vec<_>>()});
    // the searches made earlier in the game with the same context (their answers are judged too)
    let mut cur = c.pos.clone();
    for (i, m) in c.history.iter().enumerate() {
        let (out, untouched) = run_search(&mut board, &mut ctx, &mut g);
        let ok = matches!(&out, Outcome::Move(d, _) if cur.legal_moves().iter().any(|x| describe_model(x) == *d));
        if !ok || !untouched {
            return (Some(Violation { prop: "C07".into(), class: "illegal-answer-with-reused-context".into(), seed: c.pos.to_fen(), path: c.history[..i].iter().map(uci).collect(), detail: format!("search number {} of a game sharing one context, in {}: {:?} (board untouched: {})", i + 1, cur.to_fen(), out, untouched), extra }), "move");
        }
        crate::walk::impl_move_from_model(m, cur.stm).apply(&mut board).expect("history apply");
        board.toggle_turn();
        cur = cur.make(m);
    }
    let (out, untouched) = if c.pool == 0 {
        run_search(&mut board, &mut ctx, &mut g)
    } else {
        let pl = &pools.iter().find(|p| p.0 == c.pool).unwrap().1;
        pl.install(|| run_search(&mut board, &mut ctx, &mut g))
    };
    let legal = cur.legal_moves();
    let mk = |class: &str, detail: String| Some(Violation { prop: "C07".into(), class: if c.history.is_empty() { class.into() } else { format!("{}(reused-context)", class) }, seed: c.pos.to_fen(), path: c.history.iter().map(uci).collect(), detail: format!("{} [position {}; registered {} time(s); half-move clock {}]", detail, cur.to_fen(), c.registered, cur.halfmove), extra: extra.clone() });
    let label: &'static str;
    let v = match &out {
        Outcome::Panic(p) => {
            label = "panic";
            let cls = if legal.is_empty() && c.depth >= 1 { "panic-when-no-legal-move" } else { "panic" };
            mk(cls, format!("depth {} pool {}: {}", c.depth, c.pool, p))
        }
        Outcome::DepthTooLow => {
            label = "depth-too-low";
            if c.depth == 0 {
                None
            } else {
                mk("wrong-error", format!("depth {} reported as too low", c.depth))
            }
        }
        Outcome::NoAvailableMoves => {
            label = "no-available-moves";
            if legal.is_empty() {
                None
            } else {
                mk("wrong-error", format!("{} legal moves exist but none reported available (depth {})", legal.len(), c.depth))
            }
        }
        Outcome::Move(d, _) => {
            label = "move";
            if c.depth == 0 {
                mk("move-at-depth-0", format!("returned {} at depth 0", desc_str(d)))
            } else if !legal.iter().any(|m| describe_model(m) == *d) {
                mk("illegal-move-returned", format!("returned {} which is not legal (depth {}, pool {})", desc_str(d), c.depth, c.pool))
            } else {
                None
            }
        }
    };
    if v.is_none() && !untouched {
        return (mk("search-changed-the-board", format!("depth {} pool {}", c.depth, c.pool)), label);
    }
    (v, label)
}

pub fn cases(tier: &str) -> (Vec<Case>, serde_json::Value) {
    let thorough = tier == "thorough";
    let mut cases = Vec::new();
    let mut seen: HashSet<CKey> = HashSet::new();
    let near = if thorough { 2 } else { 1 };
    let mut nearby = 0;
    for name in ROOTS {
        let sd = TREE_SEEDS.iter().find(|s| s.name == *name).expect("root seed");
        let root = Pos::from_fen(sd.fen).unwrap();
        // the root itself: depth 0..3 (4 in thorough for small ones), all pool sizes at depth 2
        let maxd = if thorough { 4 } else { 3 };
        for d in 0..=maxd {
            if d == 4 && root.legal_moves().len() > 25 {
                continue;
            }
            cases.push(Case { pos: root.clone(), depth: d, pool: 0, class: "seed-root", registered: 0, history: vec![], successors_seen_twice: false });
        }
        for pool in [1usize, 2, 3, 8, 16, 64] {
            if !thorough && pool == 64 && !matches!(*name, "startpos" | "krk" | "mated") {
                continue;
            }
            cases.push(Case { pos: root.clone(), depth: 2, pool, class: "seed-root-pool", registered: 0, history: vec![], successors_seen_twice: false });
        }
        if !root.legal_moves().is_empty() {
            for d in [1u8, 2] {
                cases.push(Case { pos: root.clone(), depth: d, pool: 0, class: "all-successors-already-seen-twice", registered: 1, history: vec![], successors_seen_twice: true });
            }
        }
        seen.insert(canon(&root));
        // every state within `near` plies (first 6 seeds in quick; all in thorough)
        let idx = ROOTS.iter().position(|x| x == name).unwrap();
        if thorough || idx < 16 {
            let mut frontier = vec![root.clone()];
            for _ in 0..near {
                let mut next = Vec::new();
                for p in &frontier {
                    for m in p.legal_moves() {
                        let n = p.make(&m);
                        if seen.insert(canon(&n)) {
                            next.push(n);
                        }
                    }
                }
                for n in &next {
                    nearby += 1;
                    for d in if thorough { vec![1u8, 2, 3] } else { vec![1u8, 2] } {
                        cases.push(Case { pos: n.clone(), depth: d, pool: 0, class: "near-seed", registered: 0, history: vec![], successors_seen_twice: false });
                    }
                }
                frontier = next;
            }
        }
    }
    // special classes from the tree seeds
    let cap = if thorough { 150 } else { 60 };
    let mut counts = [0usize; 4];
    let mut seen2: HashSet<CKey> = HashSet::new();
    for sd in TREE_SEEDS {
        let mut stack = vec![(Pos::from_fen(sd.fen).unwrap(), 0u32)];
        let d = sd.dq;
        while let Some((p, k)) = stack.pop() {
            if !seen2.insert(canon(&p)) {
                continue;
            }
            let l = p.legal_moves();
            let chk = p.in_check(p.stm);
            let cls = if l.is_empty() && chk {
                Some((0, "checkmated"))
            } else if l.is_empty() {
                Some((1, "stalemated"))
            } else if l.len() == 1 {
                Some((2, "single-legal-move"))
            } else if chk {
                Some((3, "in-check"))
            } else {
                None
            };
            if let Some((i, nm)) = cls {
                if counts[i] < cap && !seen.contains(&canon(&p)) {
                    counts[i] += 1;
                    for dd in [0u8, 1, 2, 3] {
                        cases.push(Case { pos: p.clone(), depth: dd, pool: 0, class: nm, registered: 0, history: vec![], successors_seen_twice: false });
                    }
                    if !l.is_empty() {
                        for dd in [1u8, 2] {
                            cases.push(Case { pos: p.clone(), depth: dd, pool: 0, class: "all-successors-already-seen-twice", registered: 2, history: vec![], successors_seen_twice: true });
                        }
                    }
                    if counts[i] <= 3 {
                        for pool in [1usize, 3, 64] {
                            cases.push(Case { pos: p.clone(), depth: 2, pool, class: nm, registered: 0, history: vec![], successors_seen_twice: false });
                        }
                    }
                }
            }
            if k < d {
                for m in l {
                    stack.push((p.make(&m), k + 1));
                }
            }
        }
    }
    // double en passant with one of the two captures discovering a check, > 20 legal moves (move
    // ordering sees two en-passant captures of different rank among checks, captures and quiet moves)
    let dep = double_en_passant(thorough);
    for p in dep {
        cases.push(Case { pos: p, depth: 1, pool: 0, class: "double-en-passant", registered: 0, history: vec![], successors_seen_twice: false });
    }
    // every depth the interface accepts: fortresses in which each side has exactly one legal move
    // at every ply (the tree is a single line, so depth 255 costs 255 nodes), and a position with
    // two moves per side (searched to depth 16: 2^16 lines)
    for (fen, depths) in [
        ("5b1k/4p1p1/4P1P1/8/8/4p1p1/4P1P1/5B1K w - - 0 1", vec![4u8, 16, 32, 63, 64, 65, 66, 100, 127, 128, 129, 200, 254, 255]),
        ("5b1k/4p1p1/4P1P1/8/8/4p1p1/4P1P1/5B1K b - - 0 1", vec![64u8, 65, 255]),
        ("7k/4p1p1/4P1P1/8/8/4p1p1/4P1P1/7K w - - 0 1", vec![8u8, 16]),
    ] {
        let p = Pos::from_fen(fen).unwrap();
        if !p.is_consistent() {
            panic!("harness: inconsistent fortress seed {}", fen);
        }
        for d in depths {
            cases.push(Case { pos: p.clone(), depth: d, pool: 0, class: "single-line-fortress", registered: 0, history: vec![], successors_seen_twice: false });
        }
    }
    // positions that are drawn on move count or by repetition but still have legal moves
    let mut drawn_cases = 0;
    for name in ["startpos", "kiwipete", "krk", "kpk", "castle-base-w", "ep-legal-both"] {
        let sd = TREE_SEEDS.iter().find(|s| s.name == name).unwrap();
        let base = Pos::from_fen(sd.fen).unwrap();
        for half in [98u32, 99, 100, 101, 150] {
            let mut p = base.clone();
            p.halfmove = half;
            for d in [1u8, 2] {
                cases.push(Case { pos: p.clone(), depth: d, pool: 0, class: "half-move-clock-near-or-past-100", registered: 0, history: vec![], successors_seen_twice: false });
                drawn_cases += 1;
            }
        }
        for reg in [1u8, 2, 3] {
            for d in [1u8, 2] {
                cases.push(Case { pos: base.clone(), depth: d, pool: 0, class: "position-registered-up-to-three-times", registered: reg, history: vec![], successors_seen_twice: false });
                drawn_cases += 1;
            }
        }
    }
    // games sharing one search context: every path of quiet king moves between a few squares
    // (includes triangulations: the same placement with the other side to move)
    let mut hist_cases = 0;
    {
        let root = Pos::from_fen("7k/8/8/8/8/8/8/K7 w - - 0 1").unwrap();
        let allowed: Vec<Sq> = ["a1", "b1", "b2", "a2", "h8", "g8", "g7", "h7"].iter().map(|s| parse_sq(s).unwrap()).collect();
        let len = if thorough { 6 } else { 5 };
        let mut paths: Vec<Vec<Move>> = vec![vec![]];
        for _ in 0..len {
            let mut next = Vec::new();
            for h in &paths {
                let mut p = root.clone();
                for m in h {
                    p = p.make(m);
                }
                for m in p.legal_moves().into_iter().filter(|m| allowed.contains(&m.from) && allowed.contains(&m.to)) {
                    let mut t = h.clone();
                    t.push(m);
                    next.push(t);
                }
            }
            paths = next;
        }
        for h in paths {
            for d in [1u8, 2] {
                cases.push(Case { pos: root.clone(), depth: d, pool: 0, class: "game-with-reused-context", registered: 0, history: h.clone(), successors_seen_twice: false });
                hist_cases += 1;
            }
        }
    }
    let bounds = json!({"drawn_but_movable_cases": drawn_cases, "reused_context_game_paths": hist_cases, "seed_roots": ROOTS.len(), "states_near_seeds": nearby, "near_plies": near, "special_cap_per_class": cap,
        "special_collected": {"checkmated": counts[0], "stalemated": counts[1], "single-legal-move": counts[2], "in-check": counts[3]},
        "depths": "0..3 (roots), 1..2/3 (near), 0..3 (special)", "pool_sizes": [1, 2, 3, 8, 16, 64]});
    (cases, bounds)
}

pub fn run(a: &Args) -> i32 {
    let mut rep = Report::new("C07", &a.tier, a.seed);
    let sink = Sink::new(6);
    use_small_generators();
    let (mut cs, bounds) = cases(&a.tier);
    if a.seed != 0 && !cs.is_empty() {
        let k = a.seed as usize % cs.len();
        cs.rotate_left(k);
    }
    let pools: Vec<(usize, rayon::ThreadPool)> = [1usize, 2, 3, 8, 16, 64].iter().map(|&n| (n, rayon::ThreadPoolBuilder::new().num_threads(n).build().unwrap())).collect();
    let next = AtomicUsize::new(0);
    let done = AtomicU64::new(0);
    let labels: Mutex<std::collections::BTreeMap<String, u64>> = Mutex::new(Default::default());
    // watchdog state: per worker, (case index + 1, start time in ms since run start)
    let nworkers = 6usize;
    let started: Vec<(AtomicUsize, AtomicU64)> = (0..nworkers).map(|_| (AtomicUsize::new(0), AtomicU64::new(0))).collect();
    let t0 = std::time::Instant::now();
    let finished = std::sync::atomic::AtomicBool::new(false);
    let hang_limit_ms: u64 = 600_000;
    std::thread::scope(|sc| {
        for w in 0..nworkers {
            let (cs, pools, next, done, labels, sink, started) = (&cs, &pools, &next, &done, &labels, &sink, &started);
            sc.spawn(move || loop {
                let i = next.fetch_add(1, Ordering::Relaxed);
                if i >= cs.len() {
                    started[w].0.store(0, Ordering::SeqCst);
                    break;
                }
                started[w].1.store(t0.elapsed().as_millis() as u64, Ordering::SeqCst);
                started[w].0.store(i + 1, Ordering::SeqCst);
                let (v, label) = check_case(&cs[i], pools);
                started[w].0.store(0, Ordering::SeqCst);
                *labels.lock().unwrap().entry(format!("outcome_{}", label)).or_insert(0) += 1;
                *labels.lock().unwrap().entry(format!("class_{}", cs[i].class)).or_insert(0) += 1;
                if let Some(v) = v {
                    sink.push(v);
                }
                done.fetch_add(1, Ordering::Relaxed);
            });
        }
        // watchdog
        let (cs, started, finished, done) = (&cs, &started, &finished, &done);
        let (tier, seed) = (a.tier.clone(), a.seed);
        sc.spawn(move || {
            while !finished.load(Ordering::SeqCst) {
                std::thread::sleep(std::time::Duration::from_millis(200));
                let now = t0.elapsed().as_millis() as u64;
                for s in started.iter() {
                    let i = s.0.load(Ordering::SeqCst);
                    if i != 0 && now.saturating_sub(s.1.load(Ordering::SeqCst)) > hang_limit_ms {
                        let c = &cs[i - 1];
                        let v = Violation { prop: "C07".into(), class: "search-hangs".into(), seed: c.pos.to_fen(), path: vec![], detail: format!("depth {} pool {}: no answer within {} s", c.depth, c.pool, hang_limit_ms / 1000), extra: json!({"kind": "c07", "fen": c.pos.to_fen(), "depth": c.depth, "pool": c.pool}) };
                        emergency_violation("C07", &tier, seed, &v, done.load(Ordering::Relaxed));
                    }
                }
                if started.iter().all(|s| s.0.load(Ordering::SeqCst) == 0) && done.load(Ordering::Relaxed) as usize >= cs.len() {
                    break;
                }
            }
        });
    });
    finished.store(true, Ordering::SeqCst);
    let n = done.load(Ordering::Relaxed);
    rep.states = n;
    rep.transitions = n;
    rep.traces = n;
    for (k, v) in labels.lock().unwrap().iter() {
        rep.add(k, *v);
    }
    rep.add("search_calls", n);
    rep.samples = cs.iter().take(3).chain(cs.iter().rev().take(3)).map(|c| json!({"fen": c.pos.to_fen(), "depth": c.depth, "pool": c.pool, "class": c.class, "registered": c.registered, "history": c.history.iter().map(uci).collect::<Vec<_>>()})).collect();
    rep.bounds = bounds;
    rep.rule = "state = (position, depth, pool size); each is one call of the real alpha_beta_search with a brand-new context and generator on a board built for the position; the answer is compared with the model's legal-move set and the declared errors; full snapshot of the caller's board before/after".into();
    rep.assumptions = vec!["generators created during these runs use a reduced LRU capacity (hook); answers of a correct cache do not depend on capacity".into(), "a call is considered hung after 600 s".into()];
    rep.mandatory = vec!["outcome_move".into(), "outcome_depth-too-low".into(), "class_checkmated".into(), "class_stalemated".into(), "class_single-legal-move".into(), "class_half-move-clock-near-or-past-100".into(), "class_position-registered-up-to-three-times".into(), "class_game-with-reused-context".into(), "class_all-successors-already-seen-twice".into()];
    rep.mandatory.push("class_double-en-passant".into());
    rep.mandatory.push("class_single-line-fortress".into());
    rep.finish(&sink)
}

pub fn replay(v: &serde_json::Value) -> i32 {
    use_small_generators();
    let pos = match Pos::from_fen(v["extra"]["fen"].as_str().unwrap_or("")) {
        Ok(p) => p,
        Err(e) => {
            eprintln!("MACHINERY-ERROR: {}", e);
            return 2;
        }
    };
    let mut history = Vec::new();
    if let Some(arr) = v["extra"]["history"].as_array() {
        let mut q = pos.clone();
        for t in arr {
            let m = q.legal_moves().into_iter().find(|m| uci(m) == t.as_str().unwrap_or("")).expect("replay history");
            q = q.make(&m);
            history.push(m);
        }
    }
    let c = Case { pos, depth: v["extra"]["depth"].as_u64().unwrap_or(1) as u8, pool: v["extra"]["pool"].as_u64().unwrap_or(0) as usize, class: "replay", registered: v["extra"]["registered"].as_u64().unwrap_or(0) as u8, history, successors_seen_twice: v["extra"]["successors_seen_twice"].as_bool().unwrap_or(false) };
    let pools: Vec<(usize, rayon::ThreadPool)> = if c.pool > 0 { vec![(c.pool, rayon::ThreadPoolBuilder::new().num_threads(c.pool).build().unwrap())] } else { vec![] };
    let a = check_case(&c, &pools).0.map(|x| x.class);
    let b = check_case(&c, &pools).0.map(|x| x.class);
    if a != b {
        eprintln!("MACHINERY-ERROR: replay is not deterministic: {:?} vs {:?}", a, b);
        return 2;
    }
    match a {
        Some(cls) => {
            println!("REPRODUCED property=C07 class={}", cls);
            1
        }
        None => {
            println!("NOT-REPRODUCED property=C07");
            0
        }
    }
}
