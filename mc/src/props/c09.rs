//! C09 — parallel search gives the same answer under every thread schedule.
//!
//! For each configuration (position, depth, initial cache) the REAL `alpha_beta_search` is
//! executed under the controlled scheduler (sched.rs) for every schedule within the bounds:
//! iterative preemption bounding at the granularity of shared-cache operations, all (or
//! deviation-bounded) root-task orders.  Oracle: exactly one (move, score) outcome over all
//! schedules, no panic, no hang, and the same outcome in free-running pools of 1..64 threads.

use crate::bind::*;
use crate::refchess::*;
use crate::report::{emergency_violation, Report, Sink, Violation};
use crate::sched::*;
use crate::search::*;
use crate::Args;
use chess::alpha_beta_searcher::SearchContext;
use chess::move_generator::MoveGenerator;
use rustc_hash::FxHashSet;
use serde_json::json;
use std::collections::{BTreeMap, BTreeSet};
use std::sync::atomic::{AtomicBool, AtomicU64, Ordering};
use std::sync::{Arc, Mutex};
use std::time::Duration;

#[derive(Clone, Debug)]
pub struct Config {
    pub name: &'static str,
    pub fen: &'static str,
    pub depth: u8,
    /// run one search with the same context first (default schedule) so that the cache is not empty
    pub warm: bool,
    pub pre_bound: u32,
    pub dev_bound: u32,
    /// true: every cache operation is a choice point; false: only operations on keys seen shared
    pub all_points: bool,
    pub thorough_only: bool,
    /// light: only four task orders (index, reverse, two rotations), no free-running cross-check
    pub light: bool,
}

const fn cfg(name: &'static str, fen: &'static str, depth: u8, warm: bool, pre_bound: u32, dev_bound: u32, all_points: bool, thorough_only: bool) -> Config {
    Config { name, fen, depth, warm, pre_bound, dev_bound, all_points, thorough_only, light: false }
}

const KPK2: &str = "8/8/8/8/8/4k3/4P3/4K3 w - - 0 1"; // 2 root moves
const KRKB: &str = "8/8/8/8/8/k7/8/K6R b - - 0 1"; // 3 root moves
const KQKC: &str = "8/8/8/8/3b4/8/7k/K7 w - - 0 1"; // white in check, 2 root moves
const EPB: &str = "4k3/8/8/2PpP3/8/8/8/4K3 w - d6 0 1"; // 9 root moves
const KRKW: &str = "8/8/8/8/8/k7/8/K6R w - - 0 1"; // many root moves
const KQKB: &str = "6q1/8/8/8/8/K7/5k2/8 b - - 0 1"; // K+Q v K, many root tasks, tempo transpositions
const KQKW: &str = "7k/8/5K2/8/8/8/8/6Q1 w - - 0 1";
const KPPKP: &str = "7k/7p/8/8/8/8/6PP/7K w - - 0 1"; // 5 root moves

/// CONFIGS plus (thorough) the sparse-position family: 320 fixed positions with 6..9 men
/// (seeds.rs), searched at depth 5 under four task orders (index, reverse, two rotations; no
/// preemptions) — deep cross-task transpositions.
pub fn all_configs(thorough: bool) -> Vec<Config> {
    let mut v: Vec<Config> = CONFIGS.to_vec();
    let mut n = 0;
    let want = if thorough { 40 } else { 0 };
    for (i, p) in crate::seeds::sparse_positions(if thorough { 320 } else { 0 }).into_iter().enumerate() {
        let nm: &'static str = Box::leak(format!("sparse-{}-d5-orders", i).into_boxed_str());
        let fen: &'static str = Box::leak(p.to_fen().into_boxed_str());
        v.push(Config { name: nm, fen, depth: 5, warm: false, pre_bound: 0, dev_bound: 0, all_points: false, thorough_only: false, light: true });
        n += 1;
    }
    let _ = (n, want);
    v
}

pub const CONFIGS: &[Config] = &[
    cfg("kpk-2tasks-d3-all", KPK2, 3, false, 1, 9, true, false),
    cfg("kpk-2tasks-d4-all", KPK2, 4, false, 1, 9, true, false),
    cfg("kpk-2tasks-d4-warm", KPK2, 4, true, 1, 9, true, false),
    cfg("krk-3tasks-d3-all", KRKB, 3, false, 1, 9, true, false),
    cfg("krk-3tasks-d4", KRKB, 4, false, 1, 9, false, true),
    cfg("krk-3tasks-d4-orders", KRKB, 4, false, 0, 9, false, false),
    cfg("krk-3tasks-d5-orders", KRKB, 5, false, 0, 9, false, false),
    cfg("krk-3tasks-d5", KRKB, 5, false, 1, 9, false, true),
    cfg("kppkp-5tasks-d3", KPPKP, 3, false, 1, 9, false, false),
    cfg("ep-9tasks-d3", EPB, 3, false, 0, 2, false, false),
    cfg("krkw-d3", KRKW, 3, false, 0, 1, false, false),
    cfg("incheck-d3", KQKC, 3, false, 1, 9, true, false),
    cfg("kqk-b-d5-orders", KQKB, 5, false, 0, 0, false, false),
    cfg("kqk-w-d4-orders", KQKW, 4, false, 0, 0, false, false),
    // thorough
    cfg("kpk-2tasks-d4-all-p2", KPK2, 4, false, 2, 9, true, true),
    cfg("kpk-2tasks-d5-all", KPK2, 5, false, 1, 9, true, true),
    cfg("krk-3tasks-d3-all-p2", KRKB, 3, false, 2, 9, true, true),
    cfg("krk-3tasks-d4-all", KRKB, 4, false, 1, 9, true, true),
    cfg("krk-3tasks-d5-warm", KRKB, 5, true, 1, 9, false, true),
    cfg("kppkp-5tasks-d4", KPPKP, 4, false, 1, 9, false, true),
    cfg("kppkp-5tasks-d5-orders", KPPKP, 5, false, 0, 3, false, true),
    cfg("ep-9tasks-d4-orders", EPB, 4, false, 0, 2, false, true),
    cfg("krkw-d4-orders", KRKW, 4, false, 0, 1, false, true),
    cfg("krkw-d5", KRKW, 5, false, 0, 1, false, true),
];

#[derive(Clone, Debug)]
struct Job {
    prefix: Vec<usize>,
    pre_used: u32,
    dev_used: u32,
    policy: OrderPolicy,
}

struct Explorer {
    sched: Arc<Sched>,
    pool: rayon::ThreadPool,
}

fn make_explorer(ntasks: usize) -> Explorer {
    let sched = Sched::new();
    let s2 = sched.clone();
    let pool = rayon::ThreadPoolBuilder::new()
        .num_threads(ntasks + 2)
        .start_handler(move |_| bind_thread(s2.clone()))
        .build()
        .unwrap();
    Explorer { sched, pool }
}

/// one controlled execution: returns (record, outcome)
fn execute(ex: &Explorer, c: &Config, pos: &Pos, names: &[String], prefix: &[usize], shared: &FxHashSet<FullKey>) -> Result<(ExecRecord, Outcome), String> {
    execute_p(ex, c, pos, names, prefix, shared, OrderPolicy::First)
}

fn execute_p(ex: &Explorer, c: &Config, pos: &Pos, names: &[String], prefix: &[usize], shared: &FxHashSet<FullKey>, policy: OrderPolicy) -> Result<(ExecRecord, Outcome), String> {
    let mut ctx = SearchContext::new(c.depth);
    let step_timeout = Duration::from_secs(60);
    if c.warm {
        // the previous search of the same context, under the default schedule
        ex.sched.arm(names.to_vec(), false);
        let mut b = build_board(pos);
        let (res, rec) = std::thread::scope(|sc| {
            let h = sc.spawn(|| ex.pool.install(|| run_search(&mut b, &mut ctx, &mut MoveGenerator::new())));
            let rec = control(&ex.sched, &[], &ChoiceMode::Shared(&FxHashSet::default()), step_timeout);
            ex.sched.disarm();
            (h.join(), rec)
        });
        rec?;
        if res.is_err() {
            return Err("warm-up search thread died".into());
        }
    }
    ex.sched.arm(names.to_vec(), c.warm);
    let mut b = build_board(pos);
    let mode_set;
    let mode = if c.all_points {
        ChoiceMode::All
    } else {
        mode_set = shared;
        ChoiceMode::Shared(mode_set)
    };
    let (res, rec) = std::thread::scope(|sc| {
        let h = sc.spawn(|| ex.pool.install(|| run_search(&mut b, &mut ctx, &mut MoveGenerator::new())));
        let rec = control_with_policy(&ex.sched, prefix, &mode, step_timeout, policy);
        if let Ok(r) = &rec {
            if r.hang.is_some() {
                // cannot join a hung search: the caller reports and the process ends
                return (None, rec);
            }
        }
        ex.sched.disarm();
        (Some(h.join()), rec)
    });
    let rec = rec?;
    if rec.hang.is_some() {
        return Ok((rec, Outcome::Panic("hang".into())));
    }
    match res {
        Some(Ok((out, _untouched))) => Ok((rec, out)),
        _ => Err("search thread died".into()),
    }
}

struct ConfigResult {
    executions: u64,
    choice_points_max: usize,
    steps_total: u64,
    outcomes: BTreeMap<String, (Vec<usize>, OrderPolicy)>,
    cache_digests: BTreeSet<u64>,
    traces: BTreeSet<u64>,
    shared_keys: usize,
    conflicting_stores: u64,
    cross_task_hits: u64,
    max_pre: u32,
    rounds: u32,
    capped: bool,
}

fn policy_name(p: OrderPolicy) -> String {
    match p {
        OrderPolicy::First => "first".into(),
        OrderPolicy::Last => "last".into(),
        OrderPolicy::Rotate(k) => format!("rotate:{}", k),
    }
}

fn policy_of(s: &str) -> OrderPolicy {
    if s == "last" {
        OrderPolicy::Last
    } else if let Some(k) = s.strip_prefix("rotate:") {
        OrderPolicy::Rotate(k.parse().unwrap_or(0))
    } else {
        OrderPolicy::First
    }
}

fn outcome_key(o: &Outcome) -> String {
    match o {
        Outcome::Move(d, s) => format!("{} score {:?}", desc_str(d), s),
        other => format!("{:?}", other),
    }
}

fn explore_config(c: &Config, workers: usize, sink: &Sink, a: &Args, total_execs: &AtomicU64) -> Result<ConfigResult, String> {
    let pos = Pos::from_fen(c.fen).unwrap();
    let mut names: Vec<String> = pos.legal_moves().iter().map(uci).collect();
    names.sort();
    let n = names.len();
    let explorers: Vec<Explorer> = (0..workers).map(|_| make_explorer(n)).collect();
    let mut shared: FxHashSet<FullKey> = FxHashSet::default();
    let capped = AtomicBool::new(false);
    let cfg_start = std::time::Instant::now();
    let cap_secs: u64 = if a.tier == "thorough" { 1500 } else { 150 };
    let mut res = ConfigResult { executions: 0, choice_points_max: 0, steps_total: 0, outcomes: BTreeMap::new(), cache_digests: BTreeSet::new(), traces: BTreeSet::new(), shared_keys: 0, conflicting_stores: 0, cross_task_hits: 0, max_pre: 0, rounds: 0, capped: false };
    // determinism self-check: the default schedule twice must give identical traces
    if !c.light {
        let (r1, o1) = execute(&explorers[0], c, &pos, &names, &[], &shared)?;
        let (r2, o2) = execute(&explorers[0], c, &pos, &names, &[], &shared)?;
        if r1.trace_hash != r2.trace_hash || o1 != o2 || r1.points.len() != r2.points.len() {
            return Err(format!("uncontrolled nondeterminism: the default schedule replayed twice differs ({:?} vs {:?})", o1, o2));
        }
    }
    // iterate: explore with the current shared-key classification until it stops growing
    loop {
        res.rounds += 1;
        let round_shared = shared.clone();
        // the bounded exploration starts from the index order, from the reverse order and from
        // every rotation of the index order (each a different default at task-completion points)
        let mut initial = vec![Job { prefix: vec![], pre_used: 0, dev_used: 0, policy: OrderPolicy::First }, Job { prefix: vec![], pre_used: 0, dev_used: 0, policy: OrderPolicy::Last }];
        if c.light {
            for k in [n / 3, (2 * n) / 3] {
                if k > 0 {
                    initial.push(Job { prefix: vec![], pre_used: 0, dev_used: 0, policy: OrderPolicy::Rotate(k) });
                }
            }
        } else {
            for k in 1..n {
                initial.push(Job { prefix: vec![], pre_used: 0, dev_used: 0, policy: OrderPolicy::Rotate(k) });
            }
        }
        let queue: Mutex<Vec<Job>> = Mutex::new(initial);
        let inflight = AtomicU64::new(0);
        let new_shared: Mutex<FxHashSet<FullKey>> = Mutex::new(FxHashSet::default());
        let results: Mutex<&mut ConfigResult> = Mutex::new(&mut res);
        let err: Mutex<Option<String>> = Mutex::new(None);
        let stop = AtomicBool::new(false);
        std::thread::scope(|sc| {
            for ex in explorers.iter() {
                let (queue, inflight, new_shared, results, err, stop, names, pos, round_shared, capped, cfg_start) = (&queue, &inflight, &new_shared, &results, &err, &stop, &names, &pos, &round_shared, &capped, &cfg_start);
                sc.spawn(move || loop {
                    if stop.load(Ordering::SeqCst) {
                        break;
                    }
                    if cfg_start.elapsed().as_secs() > cap_secs {
                        // wall cap per configuration: stop taking new schedules (reported as not exhaustive)
                        capped.store(true, Ordering::SeqCst);
                        queue.lock().unwrap().clear();
                        if inflight.load(Ordering::SeqCst) == 0 {
                            break;
                        }
                    }
                    let job = {
                        let mut q = queue.lock().unwrap();
                        let j = q.pop();
                        if j.is_some() {
                            inflight.fetch_add(1, Ordering::SeqCst);
                        }
                        j
                    };
                    let job = match job {
                        Some(j) => j,
                        None => {
                            if inflight.load(Ordering::SeqCst) == 0 {
                                break;
                            }
                            std::thread::sleep(Duration::from_millis(2));
                            continue;
                        }
                    };
                    match execute_p(ex, c, pos, names, &job.prefix, round_shared, job.policy) {
                        Ok((rec, out)) => {
                            total_execs.fetch_add(1, Ordering::Relaxed);
                            if let Some(h) = &rec.hang {
                                let v = Violation { prop: "C09".into(), class: "search-hangs-under-schedule".into(), seed: c.fen.into(), path: vec![], detail: format!("config {} depth {}: {}", c.name, c.depth, h), extra: json!({"kind": "c09", "config": c.name, "schedule": job.prefix}) };
                                emergency_violation("C09", &a.tier, a.seed, &v, total_execs.load(Ordering::Relaxed));
                            }
                            // children
                            // children: every non-default choice at a point after the prefix (all
                            // choices between the end of the prefix and that point were defaults)
                            let mut kids = Vec::new();
                            for i in job.prefix.len()..rec.points.len() {
                                let p = &rec.points[i];
                                for alt in 1..p.enabled.len() {
                                    let (np, nd) = if p.preemptive { (job.pre_used + 1, job.dev_used) } else { (job.pre_used, job.dev_used + 1) };
                                    if np > c.pre_bound || nd > c.dev_bound {
                                        continue;
                                    }
                                    let mut pf = rec.choices[..i].to_vec();
                                    pf.push(alt);
                                    // deviations are only explored from the index order and the reverse order
                                    if matches!(job.policy, OrderPolicy::Rotate(_)) {
                                        continue;
                                    }
                                    kids.push(Job { prefix: pf, pre_used: np, dev_used: nd, policy: job.policy });
                                }
                            }
                            {
                                let mut r = results.lock().unwrap();
                                r.executions += 1;
                                r.choice_points_max = r.choice_points_max.max(rec.points.len());
                                r.steps_total += rec.steps;
                                r.outcomes.entry(outcome_key(&out)).or_insert_with(|| (job.prefix.clone(), job.policy));
                                r.cache_digests.insert(rec.cache_digest);
                                r.traces.insert(rec.trace_hash);
                                r.conflicting_stores += rec.conflicting_stores;
                                r.cross_task_hits += rec.cross_task_hits;
                                r.max_pre = r.max_pre.max(job.pre_used);
                            }
                            {
                                let mut ns = new_shared.lock().unwrap();
                                for k in rec.shared_keys {
                                    ns.insert(k);
                                }
                            }
                            queue.lock().unwrap().extend(kids);
                        }
                        Err(e) => {
                            *err.lock().unwrap() = Some(e);
                            stop.store(true, Ordering::SeqCst);
                        }
                    }
                    inflight.fetch_sub(1, Ordering::SeqCst);
                });
            }
        });
        if let Some(e) = err.into_inner().unwrap() {
            return Err(e);
        }
        let ns = new_shared.into_inner().unwrap();
        let before = shared.len();
        shared.extend(ns);
        res.shared_keys = shared.len();
        if c.all_points || shared.len() == before || c.pre_bound == 0 {
            // (with no preemptions allowed the classification of keys is never consulted)
            break;
        }
        if res.rounds >= 6 {
            return Err("shared-key classification did not stabilise in 6 rounds".into());
        }
        // another round with the larger set: forget the outcome bookkeeping that depends on it
        res.executions = 0;
        res.traces.clear();
    }
    res.capped = capped.load(Ordering::SeqCst);
    // verdict for this configuration
    if res.outcomes.len() != 1 {
        let mut it = res.outcomes.iter();
        let (o1, s1) = it.next().unwrap();
        let (o2, s2) = it.next().unwrap();
        sink.push(Violation {
            prop: "C09".into(),
            class: "answer-depends-on-schedule".into(),
            seed: c.fen.into(),
            path: vec![],
            detail: format!("config {} depth {}: schedule {:?} gives [{}], schedule {:?} gives [{}] ({} distinct outcomes in {} schedules)", c.name, c.depth, s1, o1, s2, o2, res.outcomes.len(), res.executions),
            extra: json!({"kind": "c09", "config": c.name, "schedule_a": s1.0, "policy_a": policy_name(s1.1), "schedule_b": s2.0, "policy_b": policy_name(s2.1)}),
        });
    }
    for (o, s) in res.outcomes.iter() {
        if o.contains("Panic") {
            sink.push(Violation { prop: "C09".into(), class: "panic-under-schedule".into(), seed: c.fen.into(), path: vec![], detail: format!("config {}: schedule {:?}: {}", c.name, s, o), extra: json!({"kind": "c09", "config": c.name, "schedule_a": s.0, "policy_a": policy_name(s.1), "schedule_b": s.0, "policy_b": policy_name(s.1)}) });
        }
    }
    Ok(res)
}

/// free-running searches in pools of several sizes must give the controlled outcome
fn free_running(c: &Config, expected: &BTreeSet<String>, sink: &Sink, a: &Args) -> u64 {
    crate::report::with_hang_watchdog("C09", &a.tier, a.seed, "free-running-search-hangs", format!("free-running searches of config {} ({} depth {}) in pools of 1..64 threads", c.name, c.fen, c.depth), 240, || free_running_inner(c, expected, sink))
}

fn free_running_inner(c: &Config, expected: &BTreeSet<String>, sink: &Sink) -> u64 {
    let pos = Pos::from_fen(c.fen).unwrap();
    let mut n = 0;
    // (pool size, microseconds by which read critical sections are stretched, stretch only until a writer waits)
    for (size, stretch, until_writer) in [(1usize, 0u32, false), (2, 0, false), (3, 0, false), (8, 0, false), (16, 0, false), (64, 0, false), (8, 5, false), (24, 5, false), (8, 150, true), (24, 150, true), (64, 150, true)] {
        let pool = rayon::ThreadPoolBuilder::new().num_threads(size).build().unwrap();
        crate::sched::STRETCH_READERS_US.store(stretch, std::sync::atomic::Ordering::Relaxed);
        crate::sched::STRETCH_UNTIL_WRITER.store(until_writer, std::sync::atomic::Ordering::Relaxed);
        for _rep in 0..(if stretch > 0 { 1 } else { 2 }) {
            let mut ctx = SearchContext::new(c.depth);
            let mut b = build_board(&pos);
            if c.warm {
                let _ = pool.install(|| run_search(&mut b, &mut ctx, &mut MoveGenerator::new()));
            }
            let (out, _) = pool.install(|| run_search(&mut b, &mut ctx, &mut MoveGenerator::new()));
            n += 1;
            let k = outcome_key(&out);
            if !expected.contains(&k) {
                sink.push(Violation { prop: "C09".into(), class: "answer-depends-on-pool-size".into(), seed: c.fen.into(), path: vec![], detail: format!("config {} depth {}: free-running pool of {} threads gives [{}], controlled schedules gave {:?}", c.name, c.depth, size, k, expected), extra: json!({"kind": "c09-free", "config": c.name, "pool": size}) });
            }
        }
    }
    crate::sched::STRETCH_READERS_US.store(0, std::sync::atomic::Ordering::Relaxed);
    n
}

pub fn run(a: &Args) -> i32 {
    let mut rep = Report::new("C09", &a.tier, a.seed);
    let sink = Sink::new(6);
    use_small_generators();
    chess::verif_hooks::set_observer(Some(Arc::new(Router)));
    let thorough = a.tier == "thorough";
    let total = AtomicU64::new(0);
    let mut samples = Vec::new();
    let mut free_runs = 0u64;
    let mut light_done = 0u64;
    let workers = a.threads.clamp(2, 14);
    let configs = all_configs(thorough);
    for c in configs.iter() {
        if c.thorough_only && !thorough {
            continue;
        }
        if let Ok(only) = std::env::var("VERIF_C09_ONLY") {
            if !only.split(',').any(|n| c.name.starts_with(n)) {
                continue;
            }
        }
        let t0 = std::time::Instant::now();
        match explore_config(c, workers, &sink, a, &total) {
            Ok(r) => {
                if r.capped {
                    rep.exhaustive = false;
                    rep.notes.push(format!("configuration {}: wall cap hit after {} schedules; the bounds stated for it were not completed", c.name, r.executions));
                }
                let expected: BTreeSet<String> = r.outcomes.keys().cloned().collect();
                if !c.light {
                    free_runs += free_running(c, &expected, &sink, a);
                }
                rep.states += r.executions;
                rep.transitions += r.steps_total;
                rep.traces += r.executions;
                rep.add("schedules_executed", r.executions);
                rep.add("scheduler_steps", r.steps_total);
                rep.add("distinct_interleavings_(trace_digests)", r.traces.len() as u64);
                rep.add("distinct_final_cache_contents", r.cache_digests.len() as u64);
                rep.add("stores_overwriting_a_different_value", r.conflicting_stores);
                rep.add("reads_hitting_an_entry_of_another_task", r.cross_task_hits);
                if c.light {
                    light_done += 1;
                }
                if !c.light || light_done <= 3 {
                    println!("  config {:28} schedules={:6} outcomes={} caches={} shared_keys={} rounds={} steps/exec={} points_max={} {:.1}s", c.name, r.executions, r.outcomes.len(), r.cache_digests.len(), r.shared_keys, r.rounds, r.steps_total / r.executions.max(1), r.choice_points_max, t0.elapsed().as_secs_f64());
                }
                if !c.light || light_done <= 3 {
                samples.push(json!({"config": c.name, "fen": c.fen, "depth": c.depth, "warm_cache": c.warm, "root_tasks": Pos::from_fen(c.fen).unwrap().legal_moves().len(),
                    "preemption_bound_completed": c.pre_bound, "order_deviation_bound": c.dev_bound, "every_cache_op_is_a_choice_point": c.all_points,
                    "schedules": r.executions, "max_choice_points": r.choice_points_max, "shared_keys": r.shared_keys, "classification_rounds": r.rounds,
                    "distinct_outcomes": r.outcomes.keys().collect::<Vec<_>>(), "distinct_final_caches": r.cache_digests.len(), "wall_s": t0.elapsed().as_secs_f64()}));
                }
            }
            Err(e) => {
                eprintln!("MACHINERY-ERROR: config {}: {}", c.name, e);
                return 2;
            }
        }
    }
    // lock-granular part: model extracted from the real lock traces, explored by spin
    if let Err(e) = crate::props::c09_locks::run(&mut rep, &sink) {
        eprintln!("MACHINERY-ERROR: {}", e);
        return 2;
    }
    chess::verif_hooks::set_observer(None);
    rep.add("free_running_cross_checks", free_runs);
    rep.add("sparse_depth5_configurations", light_done);
    samples.extend(rep.samples.drain(..));
    rep.samples = samples;
    rep.bounds = json!({"granularity": "one scheduling point per shared-cache read / store (counter bumps commute and are not points)", "bounds": "per configuration: see samples (preemption bound, order deviation bound)", "pool_sizes_cross_checked": [1, 2, 3, 8, 16, 64]});
    rep.rule = "execution = one real alpha_beta_search under the controlled scheduler; all schedules within the preemption / deviation bounds are enumerated by stateless re-execution; distinct outcomes, final caches and interleavings are counted".into();
    rep.assumptions = vec![
        "interleavings finer than one shared-cache operation are not explored on the code itself; at lock granularity a Promela model generated from the lock shapes observed on the real search is explored exhaustively by spin (deadlock freedom only), for writer- and reader-preferring locks and 3 tasks".into(),
        "in reduced configurations only operations on keys touched by two tasks (classification iterated to a fixpoint) are choice points".into(),
        "reduced LRU capacity for generators (hook)".into(),
    ];
    rep.mandatory = vec!["schedules_executed".into(), "free_running_cross_checks".into()];
    rep.finish(&sink)
}

pub fn replay(v: &serde_json::Value) -> i32 {
    if v["extra"]["kind"].as_str() == Some("c09-locks") {
        return crate::props::c09_locks::replay(v);
    }
    use_small_generators();
    chess::verif_hooks::set_observer(Some(Arc::new(Router)));
    let name = v["extra"]["config"].as_str().unwrap_or("");
    let configs = all_configs(true);
    let c = match configs.iter().find(|c| c.name == name) {
        Some(c) => c,
        None => {
            eprintln!("MACHINERY-ERROR: unknown config {}", name);
            return 2;
        }
    };
    let pos = Pos::from_fen(c.fen).unwrap();
    let mut names: Vec<String> = pos.legal_moves().iter().map(uci).collect();
    names.sort();
    let ex = make_explorer(names.len());
    let sched = |key: &str| -> Vec<usize> { v["extra"][key].as_array().map(|a| a.iter().filter_map(|x| x.as_u64().map(|u| u as usize)).collect()).unwrap_or_default() };
    // replays treat every cache operation as a choice point only if the config did; the recorded
    // schedules are prefixes valid under the same classification, which is re-derived first
    let mut shared: FxHashSet<FullKey> = FxHashSet::default();
    if !c.all_points {
        for _ in 0..4 {
            if let Ok((r, _)) = execute(&ex, c, &pos, &names, &[], &shared) {
                let before = shared.len();
                shared.extend(r.shared_keys);
                if shared.len() == before {
                    break;
                }
            }
        }
    }
    let mut outs = Vec::new();
    for (key, pkey) in [("schedule_a", "policy_a"), ("schedule_b", "policy_b")] {
        let s = sched(key);
        let pol = policy_of(v["extra"][pkey].as_str().unwrap_or("first"));
        let o1 = execute_p(&ex, c, &pos, &names, &s, &shared, pol).map(|x| outcome_key(&x.1));
        let o2 = execute_p(&ex, c, &pos, &names, &s, &shared, pol).map(|x| outcome_key(&x.1));
        if o1 != o2 {
            eprintln!("MACHINERY-ERROR: replay of schedule {:?} is not deterministic: {:?} vs {:?}", s, o1, o2);
            return 2;
        }
        outs.push(o1);
    }
    chess::verif_hooks::set_observer(None);
    if outs[0] != outs[1] || outs.iter().any(|o| matches!(o, Ok(s) if s.contains("Panic"))) {
        println!("REPRODUCED property=C09 {:?} vs {:?}", outs[0], outs[1]);
        1
    } else {
        println!("NOT-REPRODUCED property=C09 ({:?})", outs[0]);
        0
    }
}
