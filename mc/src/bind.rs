//! Model <-> implementation adapters.  Everything here goes through the subject's *public*
//! API only (editing API, observers, move accessors).

use crate::refchess::*;
use chess::board::color::Color;
use chess::board::piece::Piece;
use chess::board::Board;
use chess::chess_move::chess_move::ChessMove;
use common::bitboard::bitboard::Bitboard;
use std::panic::{catch_unwind, AssertUnwindSafe};

pub fn bb(s: Sq) -> Bitboard {
    Bitboard(1u64 << s)
}
pub fn sq_of(b: Bitboard) -> Sq {
    b.0.trailing_zeros() as Sq
}
pub fn color_of(s: Side) -> Color {
    match s {
        Side::White => Color::White,
        Side::Black => Color::Black,
    }
}
pub fn side_of(c: Color) -> Side {
    match c {
        Color::White => Side::White,
        Color::Black => Side::Black,
    }
}
pub fn piece_of(k: Kind) -> Piece {
    match k {
        Kind::Pawn => Piece::Pawn,
        Kind::Knight => Piece::Knight,
        Kind::Bishop => Piece::Bishop,
        Kind::Rook => Piece::Rook,
        Kind::Queen => Piece::Queen,
        Kind::King => Piece::King,
    }
}
pub fn kind_of(p: Piece) -> Kind {
    match p {
        Piece::Pawn => Kind::Pawn,
        Piece::Knight => Kind::Knight,
        Piece::Bishop => Kind::Bishop,
        Piece::Rook => Kind::Rook,
        Piece::Queen => Kind::Queen,
        Piece::King => Kind::King,
    }
}

/// Build a subject board for a model position through the board-editing API only.
/// `ply_base` is what the subject's move counter is set to (its counter is 1 + plies).
pub fn build_board(pos: &Pos) -> Board {
    let mut b = Board::new();
    for s in 0..64u8 {
        if let Some((k, side)) = pos.sq[s as usize] {
            b.put(bb(s), piece_of(k), color_of(side)).expect("build_board: put");
        }
    }
    b.set_turn(color_of(pos.stm));
    let lost = 0b1111 & !pos.castle;
    if lost != 0 {
        b.lose_castle_rights(lost);
    }
    if let Some(e) = pos.ep {
        b.push_en_passant_target(bb(e));
    }
    // `as _`: the clocks' integer width is the subject's business (u8 at the pinned commit)
    if pos.halfmove != 0 {
        b.push_halfmove_clock(pos.halfmove as _);
        if b.halfmove_clock() as u64 != pos.halfmove as u64 {
            panic!("harness: half-move clock {} is not representable through push_halfmove_clock", pos.halfmove);
        }
    }
    b.set_fullmove_clock((1 + pos.ply) as _);
    if b.fullmove_clock() as u64 != 1 + pos.ply as u64 {
        panic!("harness: move counter {} is not representable through set_fullmove_clock", 1 + pos.ply);
    }
    b
}

/// Everything observable about a board through its public observers.
#[derive(Clone, PartialEq, Eq, Debug)]
pub struct Snap {
    /// per square: 0 empty, else 1 + kind + 6 * side
    pub sq: [u8; 64],
    pub locate: [[u64; 6]; 2],
    pub occ: [u64; 2],
    pub occ_all: u64,
    pub turn: u8,
    pub rights: u8,
    pub ep: u64,
    pub half: u32,
    pub full: u32,
    pub key: u64,
    pub max_seen: u8,
}

pub fn code(k: Kind, side: Side) -> u8 {
    1 + k as u8 + 6 * side as u8
}

pub fn snapshot(b: &Board) -> Snap {
    let mut sq = [0u8; 64];
    for s in 0..64u8 {
        if let Some((p, c)) = b.get(bb(s)) {
            sq[s as usize] = code(kind_of(p), side_of(c));
        }
    }
    let mut locate = [[0u64; 6]; 2];
    let mut occ = [0u64; 2];
    for side in [Side::White, Side::Black] {
        let ps = b.pieces(color_of(side));
        for k in KINDS {
            locate[side as usize][k as usize] = ps.locate(piece_of(k)).0;
        }
        occ[side as usize] = ps.occupied().0;
    }
    Snap {
        sq,
        locate,
        occ,
        occ_all: b.occupied().0,
        turn: side_of(b.turn()) as u8,
        rights: b.peek_castle_rights(),
        ep: b.peek_en_passant_target().0,
        half: b.halfmove_clock() as u32,
        full: b.fullmove_clock() as u32,
        key: b.current_position_hash(),
        max_seen: b.max_seen_position_count(),
    }
}

impl Snap {
    pub fn diff(&self, o: &Snap) -> String {
        let mut d = Vec::new();
        for s in 0..64 {
            if self.sq[s] != o.sq[s] {
                d.push(format!("sq[{}]: {} vs {}", sq_name(s as u8), self.sq[s], o.sq[s]));
            }
        }
        if self.locate != o.locate {
            d.push("piece bitboards differ".to_string());
        }
        if self.occ != o.occ || self.occ_all != o.occ_all {
            d.push("occupancy summaries differ".to_string());
        }
        macro_rules! f {
            ($n:ident) => {
                if self.$n != o.$n {
                    d.push(format!("{}: {:?} vs {:?}", stringify!($n), self.$n, o.$n));
                }
            };
        }
        f!(turn);
        f!(rights);
        f!(ep);
        f!(half);
        f!(full);
        f!(key);
        f!(max_seen);
        d.join("; ")
    }

    /// placement / rights / ep of this snapshot vs a model position ("" = equal)
    pub fn diff_pos(&self, p: &Pos) -> String {
        let mut d = Vec::new();
        for s in 0..64usize {
            let want = match p.sq[s] {
                None => 0,
                Some((k, side)) => code(k, side),
            };
            if self.sq[s] != want {
                d.push(format!("sq[{}]: impl {} model {}", sq_name(s as u8), self.sq[s], want));
            }
        }
        if self.rights != p.castle {
            d.push(format!("rights: impl {:04b} model {:04b}", self.rights, p.castle));
        }
        let want_ep = p.ep.map(|e| 1u64 << e).unwrap_or(0);
        if self.ep != want_ep {
            d.push(format!("ep: impl {:#x} model {:#x}", self.ep, want_ep));
        }
        d.join("; ")
    }
}

/// Implementation move reduced to comparable data.
#[derive(Clone, Copy, PartialEq, Eq, Hash, Debug, PartialOrd, Ord)]
pub struct MoveDesc {
    /// 0 standard, 1 promotion, 2 en passant, 3 castle
    pub class: u8,
    pub from: Sq,
    pub to: Sq,
    pub promo: Option<Kind>,
    pub captured: Option<Kind>,
}

pub fn describe_impl(m: &ChessMove) -> MoveDesc {
    let (class, promo) = match m {
        ChessMove::Standard(_) => (0, None),
        ChessMove::PawnPromotion(p) => (1, Some(kind_of(p.promote_to_piece()))),
        ChessMove::EnPassant(_) => (2, None),
        ChessMove::Castle(_) => (3, None),
    };
    MoveDesc {
        class,
        from: sq_of(m.from_square()),
        to: sq_of(m.to_square()),
        promo,
        captured: m.captures().map(|c| kind_of(c.0)),
    }
}

pub fn describe_model(m: &Move) -> MoveDesc {
    let (class, promo) = match m.kind {
        MoveKind::Normal | MoveKind::DoubleStep => (0, None),
        MoveKind::Promotion(p) => (1, Some(p)),
        MoveKind::EnPassant => (2, None),
        MoveKind::CastleK | MoveKind::CastleQ => (3, None),
    };
    MoveDesc { class, from: m.from, to: m.to, promo, captured: m.captured }
}

pub fn desc_str(d: &MoveDesc) -> String {
    let c = ["std", "promo", "ep", "castle"][d.class as usize];
    format!(
        "{}:{}{}{}{}",
        c,
        sq_name(d.from),
        sq_name(d.to),
        d.promo.map(|k| format!("={:?}", k)).unwrap_or_default(),
        d.captured.map(|k| format!(" x{:?}", k)).unwrap_or_default()
    )
}

thread_local! {
    pub static LAST_PANIC: std::cell::RefCell<String> = std::cell::RefCell::new(String::new());
    pub static IN_SUBJECT: std::cell::Cell<bool> = std::cell::Cell::new(false);
}

/// Install a panic hook that stays quiet for panics raised while the subject is being
/// called under `guarded` (they are observations), and prints everything else.
pub fn install_panic_hook() {
    let default = std::panic::take_hook();
    std::panic::set_hook(Box::new(move |info| {
        let msg = format!("{}", info);
        let quiet = IN_SUBJECT.with(|c| c.get());
        LAST_PANIC.with(|p| *p.borrow_mut() = msg);
        crate::sched::on_thread_panic();
        if !quiet {
            default(info);
        }
    }));
}

/// Call the subject; a panic becomes Err(message).
pub fn guarded<T>(f: impl FnOnce() -> T) -> Result<T, String> {
    let prev = IN_SUBJECT.with(|c| c.replace(true));
    let r = catch_unwind(AssertUnwindSafe(f));
    IN_SUBJECT.with(|c| c.set(prev));
    r.map_err(|_| LAST_PANIC.with(|p| p.borrow().clone()))
}

/// Canonical packed state: 64 squares x 4 bits, side, rights, ep square.  Exact (no digest).
pub type CKey = [u64; 5];

pub fn canon(p: &Pos) -> CKey {
    let mut k = [0u64; 5];
    for s in 0..64usize {
        let c = match p.sq[s] {
            None => 0u64,
            Some((kind, side)) => code(kind, side) as u64,
        };
        k[s / 16] |= c << ((s % 16) * 4);
    }
    k[4] = (p.stm as u64) | ((p.castle as u64) << 1) | ((p.ep.map(|e| e as u64 + 1).unwrap_or(0)) << 5);
    k
}

/// digest of the build's Zobrist constants read black-box (identifies the draw of the build-time tables)
pub fn zobrist_digest() -> u64 {
    let mut dg = 0xcbf29ce484222325u64;
    for k in KINDS {
        for side in [Side::White, Side::Black] {
            for sq in 0..64u8 {
                let mut b = Board::new();
                b.put(bb(sq), piece_of(k), color_of(side)).unwrap();
                dg = (dg ^ b.current_position_hash()).wrapping_mul(0x100000001b3);
            }
        }
    }
    dg
}
