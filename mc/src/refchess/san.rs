//! Standard Algebraic Notation writer for the reference model (FIDE Laws, appendix C).

use super::*;

fn letter(k: Kind) -> &'static str {
    match k {
        Kind::Pawn => "",
        Kind::Knight => "N",
        Kind::Bishop => "B",
        Kind::Rook => "R",
        Kind::Queen => "Q",
        Kind::King => "K",
    }
}

/// SAN body without the check / mate suffix.
pub fn san_body(m: &Move, legal: &[Move]) -> String {
    match m.kind {
        MoveKind::CastleK => return "O-O".to_string(),
        MoveKind::CastleQ => return "O-O-O".to_string(),
        _ => {}
    }
    let mut s = String::new();
    if m.moved == Kind::Pawn {
        if m.captured.is_some() {
            s.push((b'a' + m.from % 8) as char);
            s.push('x');
        }
        s.push_str(&sq_name(m.to));
        if let MoveKind::Promotion(p) = m.kind {
            s.push('=');
            s.push_str(letter(p));
        }
        return s;
    }
    s.push_str(letter(m.moved));
    // rivals: other legal moves by a like piece to the same square from another square
    let rivals: Vec<&Move> = legal.iter().filter(|o| o.moved == m.moved && o.to == m.to && o.from != m.from).collect();
    if !rivals.is_empty() {
        let same_file = rivals.iter().any(|o| o.from % 8 == m.from % 8);
        let same_rank = rivals.iter().any(|o| o.from / 8 == m.from / 8);
        if !same_file {
            s.push((b'a' + m.from % 8) as char);
        } else if !same_rank {
            s.push((b'1' + m.from / 8) as char);
        } else {
            s.push_str(&sq_name(m.from));
        }
    }
    if m.captured.is_some() {
        s.push('x');
    }
    s.push_str(&sq_name(m.to));
    s
}

/// Full SAN including '+' / '#'.
pub fn san(pos: &Pos, m: &Move, legal: &[Move]) -> String {
    let mut s = san_body(m, legal);
    let n = pos.make(m);
    match (n.in_check(n.stm), n.legal_moves().is_empty()) {
        (true, true) => s.push('#'),
        (true, false) => s.push('+'),
        _ => {}
    }
    s
}
