//! refchess — a deliberately boring mailbox reference model of the rules of chess.
//!
//! Arrays and loops only: no bitboards, no caches, no incremental state, copy-make.
//! It shares no mechanism with the subject (codyjk/chess).  It is validated against the
//! published perft tables (see `selftest`), which neither this harness nor the subject
//! produced.
//!
//! Conventions follow the *property statements*: the en-passant target is set after every
//! double pawn step and cleared by every other move; castling rights are lost exactly on
//! king move, home-rook move and home-rook capture; the half-move clock resets on capture
//! or pawn move.

pub mod san;

pub type Sq = u8; // 0..63, a1 = 0, b1 = 1, ..., h8 = 63  (file = sq % 8, rank = sq / 8)

#[derive(Clone, Copy, PartialEq, Eq, Hash, Debug, PartialOrd, Ord)]
pub enum Kind {
    Pawn = 0,
    Knight = 1,
    Bishop = 2,
    Rook = 3,
    Queen = 4,
    King = 5,
}

pub const KINDS: [Kind; 6] = [Kind::Pawn, Kind::Knight, Kind::Bishop, Kind::Rook, Kind::Queen, Kind::King];

#[derive(Clone, Copy, PartialEq, Eq, Hash, Debug, PartialOrd, Ord)]
pub enum Side {
    White = 0,
    Black = 1,
}

impl Side {
    pub fn other(self) -> Side {
        match self {
            Side::White => Side::Black,
            Side::Black => Side::White,
        }
    }
}

// castling-right bits (numerically identical to the subject's public bitmask so that the
// binding layer can compare them directly; the numbers carry no meaning inside the model)
pub const WK: u8 = 0b1000;
pub const BK: u8 = 0b0100;
pub const WQ: u8 = 0b0010;
pub const BQ: u8 = 0b0001;

pub const A1: Sq = 0;
pub const C1: Sq = 2;
pub const D1: Sq = 3;
pub const E1: Sq = 4;
pub const F1: Sq = 5;
pub const G1: Sq = 6;
pub const H1: Sq = 7;
pub const A8: Sq = 56;
pub const C8: Sq = 58;
pub const D8: Sq = 59;
pub const E8: Sq = 60;
pub const F8: Sq = 61;
pub const G8: Sq = 62;
pub const H8: Sq = 63;

#[derive(Clone, PartialEq, Eq, Hash, Debug)]
pub struct Pos {
    /// None = empty
    pub sq: [Option<(Kind, Side)>; 64],
    pub stm: Side,
    pub castle: u8,
    pub ep: Option<Sq>,
    pub halfmove: u32,
    /// number of plies made since the seed (the subject's "fullmove clock" is really 1 + plies)
    pub ply: u32,
}

#[derive(Clone, Copy, PartialEq, Eq, Hash, Debug, PartialOrd, Ord)]
pub enum MoveKind {
    Normal,
    DoubleStep,
    EnPassant,
    CastleK,
    CastleQ,
    Promotion(Kind),
}

#[derive(Clone, Copy, PartialEq, Eq, Hash, Debug, PartialOrd, Ord)]
pub struct Move {
    pub from: Sq,
    pub to: Sq,
    pub kind: MoveKind,
    pub moved: Kind,
    /// kind of the captured piece (for en passant: Pawn)
    pub captured: Option<Kind>,
}

#[derive(Clone, Copy, PartialEq, Eq, Debug)]
pub enum Status {
    Ongoing,
    Checkmate,
    Stalemate,
}

pub fn file_of(s: Sq) -> i8 {
    (s % 8) as i8
}
pub fn rank_of(s: Sq) -> i8 {
    (s / 8) as i8
}
pub fn mk_sq(file: i8, rank: i8) -> Option<Sq> {
    if (0..8).contains(&file) && (0..8).contains(&rank) {
        Some((rank * 8 + file) as Sq)
    } else {
        None
    }
}
pub fn sq_name(s: Sq) -> String {
    format!("{}{}", (b'a' + (s % 8)) as char, (b'1' + (s / 8)) as char)
}
pub fn parse_sq(s: &str) -> Option<Sq> {
    let b = s.as_bytes();
    if b.len() != 2 {
        return None;
    }
    let f = b[0].wrapping_sub(b'a');
    let r = b[1].wrapping_sub(b'1');
    if f < 8 && r < 8 {
        Some(r * 8 + f)
    } else {
        None
    }
}

const KNIGHT_D: [(i8, i8); 8] = [(1, 2), (2, 1), (2, -1), (1, -2), (-1, -2), (-2, -1), (-2, 1), (-1, 2)];
const KING_D: [(i8, i8); 8] = [(1, 0), (1, 1), (0, 1), (-1, 1), (-1, 0), (-1, -1), (0, -1), (1, -1)];
const ROOK_D: [(i8, i8); 4] = [(1, 0), (-1, 0), (0, 1), (0, -1)];
const BISHOP_D: [(i8, i8); 4] = [(1, 1), (1, -1), (-1, 1), (-1, -1)];

impl Pos {
    pub fn empty() -> Pos {
        Pos { sq: [None; 64], stm: Side::White, castle: 0, ep: None, halfmove: 0, ply: 0 }
    }

    pub fn startpos() -> Pos {
        Pos::from_fen("rnbqkbnr/pppppppp/8/8/8/8/PPPPPPPP/RNBQKBNR w KQkq - 0 1").unwrap()
    }

    pub fn from_fen(fen: &str) -> Result<Pos, String> {
        let parts: Vec<&str> = fen.split_whitespace().collect();
        if parts.len() < 2 {
            return Err(format!("bad fen: {}", fen));
        }
        let mut p = Pos::empty();
        let mut rank: i8 = 7;
        let mut file: i8 = 0;
        for c in parts[0].chars() {
            match c {
                '/' => {
                    rank -= 1;
                    file = 0;
                }
                '1'..='8' => file += c as i8 - '0' as i8,
                _ => {
                    let side = if c.is_ascii_uppercase() { Side::White } else { Side::Black };
                    let kind = match c.to_ascii_lowercase() {
                        'p' => Kind::Pawn,
                        'n' => Kind::Knight,
                        'b' => Kind::Bishop,
                        'r' => Kind::Rook,
                        'q' => Kind::Queen,
                        'k' => Kind::King,
                        _ => return Err(format!("bad fen piece {}", c)),
                    };
                    let s = mk_sq(file, rank).ok_or_else(|| format!("bad fen geometry: {}", fen))?;
                    p.sq[s as usize] = Some((kind, side));
                    file += 1;
                }
            }
        }
        p.stm = match parts[1] {
            "w" => Side::White,
            "b" => Side::Black,
            _ => return Err(format!("bad fen side: {}", fen)),
        };
        if parts.len() > 2 {
            for c in parts[2].chars() {
                match c {
                    'K' => p.castle |= WK,
                    'Q' => p.castle |= WQ,
                    'k' => p.castle |= BK,
                    'q' => p.castle |= BQ,
                    '-' => {}
                    _ => return Err(format!("bad fen castle: {}", fen)),
                }
            }
        }
        if parts.len() > 3 && parts[3] != "-" {
            p.ep = Some(parse_sq(parts[3]).ok_or_else(|| format!("bad fen ep: {}", fen))?);
        }
        if parts.len() > 4 {
            p.halfmove = parts[4].parse().map_err(|_| format!("bad fen halfmove: {}", fen))?;
        }
        // field 6 (full-move number N): plies played = 2 (N - 1) + (1 if black is to move)
        if parts.len() > 5 {
            let n: u32 = parts[5].parse().map_err(|_| format!("bad fen fullmove: {}", fen))?;
            p.ply = 2 * n.saturating_sub(1) + if p.stm == Side::Black { 1 } else { 0 };
        }
        Ok(p)
    }

    pub fn to_fen(&self) -> String {
        let mut s = String::new();
        for rank in (0..8).rev() {
            let mut empty = 0;
            for file in 0..8 {
                match self.sq[(rank * 8 + file) as usize] {
                    None => empty += 1,
                    Some((k, side)) => {
                        if empty > 0 {
                            s.push_str(&empty.to_string());
                            empty = 0;
                        }
                        let c = match k {
                            Kind::Pawn => 'p',
                            Kind::Knight => 'n',
                            Kind::Bishop => 'b',
                            Kind::Rook => 'r',
                            Kind::Queen => 'q',
                            Kind::King => 'k',
                        };
                        s.push(if side == Side::White { c.to_ascii_uppercase() } else { c });
                    }
                }
            }
            if empty > 0 {
                s.push_str(&empty.to_string());
            }
            if rank > 0 {
                s.push('/');
            }
        }
        s.push(' ');
        s.push(if self.stm == Side::White { 'w' } else { 'b' });
        s.push(' ');
        if self.castle == 0 {
            s.push('-');
        } else {
            if self.castle & WK != 0 {
                s.push('K');
            }
            if self.castle & WQ != 0 {
                s.push('Q');
            }
            if self.castle & BK != 0 {
                s.push('k');
            }
            if self.castle & BQ != 0 {
                s.push('q');
            }
        }
        s.push(' ');
        match self.ep {
            None => s.push('-'),
            Some(e) => s.push_str(&sq_name(e)),
        }
        s.push_str(&format!(" {} {}", self.halfmove, 1 + self.ply / 2));
        s
    }

    pub fn king_sq(&self, side: Side) -> Option<Sq> {
        (0..64u8).find(|&s| self.sq[s as usize] == Some((Kind::King, side)))
    }

    /// Is square `t` attacked by any piece of `by`?  (ray / offset walk from the target)
    pub fn attacked(&self, t: Sq, by: Side) -> bool {
        let (f, r) = (file_of(t), rank_of(t));
        // pawns: a white pawn on (f±1, r-1) attacks (f, r)
        let pr = if by == Side::White { r - 1 } else { r + 1 };
        for df in [-1i8, 1] {
            if let Some(s) = mk_sq(f + df, pr) {
                if self.sq[s as usize] == Some((Kind::Pawn, by)) {
                    return true;
                }
            }
        }
        for (df, dr) in KNIGHT_D {
            if let Some(s) = mk_sq(f + df, r + dr) {
                if self.sq[s as usize] == Some((Kind::Knight, by)) {
                    return true;
                }
            }
        }
        for (df, dr) in KING_D {
            if let Some(s) = mk_sq(f + df, r + dr) {
                if self.sq[s as usize] == Some((Kind::King, by)) {
                    return true;
                }
            }
        }
        for (dirs, k) in [(&ROOK_D, Kind::Rook), (&BISHOP_D, Kind::Bishop)] {
            for &(df, dr) in dirs.iter() {
                let (mut cf, mut cr) = (f + df, r + dr);
                while let Some(s) = mk_sq(cf, cr) {
                    if let Some((pk, ps)) = self.sq[s as usize] {
                        if ps == by && (pk == k || pk == Kind::Queen) {
                            return true;
                        }
                        break;
                    }
                    cf += df;
                    cr += dr;
                }
            }
        }
        false
    }

    pub fn in_check(&self, side: Side) -> bool {
        match self.king_sq(side) {
            Some(k) => self.attacked(k, side.other()),
            None => false,
        }
    }

    /// The subject's published attack-map semantics: pawn diagonals unconditionally;
    /// knight / king / slider targets (up to and including the first occupied square)
    /// minus squares occupied by the attacker's own pieces.  Returned as a bit set (bit = sq).
    pub fn attack_map(&self, by: Side) -> u64 {
        let mut m = 0u64;
        for s in 0..64u8 {
            let (k, side) = match self.sq[s as usize] {
                Some(x) => x,
                None => continue,
            };
            if side != by {
                continue;
            }
            let (f, r) = (file_of(s), rank_of(s));
            match k {
                Kind::Pawn => {
                    let tr = if by == Side::White { r + 1 } else { r - 1 };
                    for df in [-1i8, 1] {
                        if let Some(t) = mk_sq(f + df, tr) {
                            m |= 1u64 << t;
                        }
                    }
                }
                Kind::Knight | Kind::King => {
                    let d = if k == Kind::Knight { &KNIGHT_D } else { &KING_D };
                    for &(df, dr) in d.iter() {
                        if let Some(t) = mk_sq(f + df, r + dr) {
                            if !matches!(self.sq[t as usize], Some((_, ps)) if ps == by) {
                                m |= 1u64 << t;
                            }
                        }
                    }
                }
                Kind::Rook | Kind::Bishop | Kind::Queen => {
                    let mut dirs: Vec<(i8, i8)> = Vec::new();
                    if k != Kind::Bishop {
                        dirs.extend_from_slice(&ROOK_D);
                    }
                    if k != Kind::Rook {
                        dirs.extend_from_slice(&BISHOP_D);
                    }
                    for (df, dr) in dirs {
                        let (mut cf, mut cr) = (f + df, r + dr);
                        while let Some(t) = mk_sq(cf, cr) {
                            match self.sq[t as usize] {
                                None => m |= 1u64 << t,
                                Some((_, ps)) => {
                                    if ps != by {
                                        m |= 1u64 << t;
                                    }
                                    break;
                                }
                            }
                            cf += df;
                            cr += dr;
                        }
                    }
                }
            }
        }
        m
    }

    fn push_pawn_move(&self, out: &mut Vec<Move>, from: Sq, to: Sq, captured: Option<Kind>, kind: MoveKind) {
        let last = if self.stm == Side::White { 7 } else { 0 };
        if rank_of(to) == last {
            for p in [Kind::Queen, Kind::Rook, Kind::Bishop, Kind::Knight] {
                out.push(Move { from, to, kind: MoveKind::Promotion(p), moved: Kind::Pawn, captured });
            }
        } else {
            out.push(Move { from, to, kind, moved: Kind::Pawn, captured });
        }
    }

    /// Pseudo-legal moves of the side to move (castling already fully checked).
    pub fn pseudo_moves(&self) -> Vec<Move> {
        let us = self.stm;
        let them = us.other();
        let mut out = Vec::with_capacity(48);
        for s in 0..64u8 {
            let (k, side) = match self.sq[s as usize] {
                Some(x) => x,
                None => continue,
            };
            if side != us {
                continue;
            }
            let (f, r) = (file_of(s), rank_of(s));
            match k {
                Kind::Pawn => {
                    let dir: i8 = if us == Side::White { 1 } else { -1 };
                    let start = if us == Side::White { 1 } else { 6 };
                    if let Some(t) = mk_sq(f, r + dir) {
                        if self.sq[t as usize].is_none() {
                            self.push_pawn_move(&mut out, s, t, None, MoveKind::Normal);
                            if r == start {
                                if let Some(t2) = mk_sq(f, r + 2 * dir) {
                                    if self.sq[t2 as usize].is_none() {
                                        out.push(Move { from: s, to: t2, kind: MoveKind::DoubleStep, moved: Kind::Pawn, captured: None });
                                    }
                                }
                            }
                        }
                    }
                    for df in [-1i8, 1] {
                        if let Some(t) = mk_sq(f + df, r + dir) {
                            match self.sq[t as usize] {
                                Some((ck, cs)) if cs == them => {
                                    self.push_pawn_move(&mut out, s, t, Some(ck), MoveKind::Normal);
                                }
                                None if self.ep == Some(t) => {
                                    // the pawn to be taken stands beside the capturer
                                    let victim = mk_sq(f + df, r).unwrap();
                                    if self.sq[victim as usize] == Some((Kind::Pawn, them)) {
                                        out.push(Move { from: s, to: t, kind: MoveKind::EnPassant, moved: Kind::Pawn, captured: Some(Kind::Pawn) });
                                    }
                                }
                                _ => {}
                            }
                        }
                    }
                }
                Kind::Knight | Kind::King => {
                    let d = if k == Kind::Knight { &KNIGHT_D } else { &KING_D };
                    for &(df, dr) in d.iter() {
                        if let Some(t) = mk_sq(f + df, r + dr) {
                            match self.sq[t as usize] {
                                None => out.push(Move { from: s, to: t, kind: MoveKind::Normal, moved: k, captured: None }),
                                Some((ck, cs)) if cs == them => out.push(Move { from: s, to: t, kind: MoveKind::Normal, moved: k, captured: Some(ck) }),
                                _ => {}
                            }
                        }
                    }
                }
                Kind::Rook | Kind::Bishop | Kind::Queen => {
                    let mut dirs: Vec<(i8, i8)> = Vec::new();
                    if k != Kind::Bishop {
                        dirs.extend_from_slice(&ROOK_D);
                    }
                    if k != Kind::Rook {
                        dirs.extend_from_slice(&BISHOP_D);
                    }
                    for (df, dr) in dirs {
                        let (mut cf, mut cr) = (f + df, r + dr);
                        while let Some(t) = mk_sq(cf, cr) {
                            match self.sq[t as usize] {
                                None => out.push(Move { from: s, to: t, kind: MoveKind::Normal, moved: k, captured: None }),
                                Some((ck, cs)) => {
                                    if cs == them {
                                        out.push(Move { from: s, to: t, kind: MoveKind::Normal, moved: k, captured: Some(ck) });
                                    }
                                    break;
                                }
                            }
                            cf += df;
                            cr += dr;
                        }
                    }
                }
            }
        }
        // castling: rights held, king and rook at home, squares between empty,
        // king not in, through or into check
        let (home, kr, qr, kbit, qbit) = if us == Side::White { (E1, H1, A1, WK, WQ) } else { (E8, H8, A8, BK, BQ) };
        if self.sq[home as usize] == Some((Kind::King, us)) && !self.attacked(home, them) {
            if self.castle & kbit != 0
                && self.sq[kr as usize] == Some((Kind::Rook, us))
                && self.sq[(home + 1) as usize].is_none()
                && self.sq[(home + 2) as usize].is_none()
                && !self.attacked(home + 1, them)
                && !self.attacked(home + 2, them)
            {
                out.push(Move { from: home, to: home + 2, kind: MoveKind::CastleK, moved: Kind::King, captured: None });
            }
            if self.castle & qbit != 0
                && self.sq[qr as usize] == Some((Kind::Rook, us))
                && self.sq[(home - 1) as usize].is_none()
                && self.sq[(home - 2) as usize].is_none()
                && self.sq[(home - 3) as usize].is_none()
                && !self.attacked(home - 1, them)
                && !self.attacked(home - 2, them)
            {
                out.push(Move { from: home, to: home - 2, kind: MoveKind::CastleQ, moved: Kind::King, captured: None });
            }
        }
        out
    }

    /// (legal moves, number of pseudo-legal moves rejected because they leave the king attacked)
    pub fn legal_and_rejected(&self) -> (Vec<Move>, usize) {
        let us = self.stm;
        let ps = self.pseudo_moves();
        let n = ps.len();
        let l: Vec<Move> = ps.into_iter().filter(|m| !self.make(m).in_check(us)).collect();
        let r = n - l.len();
        (l, r)
    }

    /// does the side to move have at least one legal move? (stops at the first)
    pub fn has_legal_move(&self) -> bool {
        let us = self.stm;
        self.pseudo_moves().iter().any(|m| !self.make(m).in_check(us))
    }

    pub fn legal_moves(&self) -> Vec<Move> {
        let us = self.stm;
        self.pseudo_moves().into_iter().filter(|m| !self.make(m).in_check(us)).collect()
    }

    /// Copy-make.  The side to move flips (the binding layer knows the subject leaves the
    /// turn to its callers).
    pub fn make(&self, m: &Move) -> Pos {
        let mut n = self.clone();
        let us = self.stm;
        let mover = n.sq[m.from as usize].expect("model make: empty from-square");
        n.sq[m.from as usize] = None;
        let mut captured_on: Option<Sq> = None;
        match m.kind {
            MoveKind::EnPassant => {
                let victim = mk_sq(file_of(m.to), rank_of(m.from)).unwrap();
                n.sq[victim as usize] = None;
                n.sq[m.to as usize] = Some(mover);
            }
            MoveKind::CastleK => {
                n.sq[m.to as usize] = Some(mover);
                let (rf, rt) = if us == Side::White { (H1, F1) } else { (H8, F8) };
                n.sq[rt as usize] = n.sq[rf as usize];
                n.sq[rf as usize] = None;
            }
            MoveKind::CastleQ => {
                n.sq[m.to as usize] = Some(mover);
                let (rf, rt) = if us == Side::White { (A1, D1) } else { (A8, D8) };
                n.sq[rt as usize] = n.sq[rf as usize];
                n.sq[rf as usize] = None;
            }
            MoveKind::Promotion(p) => {
                if n.sq[m.to as usize].is_some() {
                    captured_on = Some(m.to);
                }
                n.sq[m.to as usize] = Some((p, us));
            }
            MoveKind::Normal | MoveKind::DoubleStep => {
                if n.sq[m.to as usize].is_some() {
                    captured_on = Some(m.to);
                }
                n.sq[m.to as usize] = Some(mover);
            }
        }
        // en-passant target: set on every double step, cleared otherwise
        n.ep = if m.kind == MoveKind::DoubleStep { Some((m.from + m.to) / 2) } else { None };
        // castling rights
        let mut lost = 0u8;
        if mover.0 == Kind::King {
            lost |= if us == Side::White { WK | WQ } else { BK | BQ };
        }
        for s in [Some(m.from), captured_on].into_iter().flatten() {
            // a piece leaving a rook home square, or being captured on one.  In a consistent
            // position a right still held implies that the piece standing there is that home
            // rook, and rights are only ever removed, so "the corner square was touched" is
            // exactly "the home rook moved or was captured" for every right still held.
            match s {
                A1 => lost |= WQ,
                H1 => lost |= WK,
                A8 => lost |= BQ,
                H8 => lost |= BK,
                _ => {}
            }
        }
        n.castle &= !lost;
        // clocks
        if m.captured.is_some() || mover.0 == Kind::Pawn {
            n.halfmove = 0;
        } else {
            n.halfmove = self.halfmove + 1;
        }
        n.ply = self.ply + 1;
        n.stm = us.other();
        n
    }

    pub fn status(&self) -> Status {
        if self.legal_moves().is_empty() {
            if self.in_check(self.stm) {
                Status::Checkmate
            } else {
                Status::Stalemate
            }
        } else {
            Status::Ongoing
        }
    }

    pub fn perft(&self, depth: u32) -> u64 {
        if depth == 0 {
            return 1;
        }
        let moves = self.legal_moves();
        if depth == 1 {
            return moves.len() as u64;
        }
        moves.iter().map(|m| self.make(m).perft(depth - 1)).sum()
    }

    /// The quantifier's notion of a consistent set-up position.
    pub fn is_consistent(&self) -> bool {
        let mut wk = 0;
        let mut bk = 0;
        for s in 0..64u8 {
            match self.sq[s as usize] {
                Some((Kind::King, Side::White)) => wk += 1,
                Some((Kind::King, Side::Black)) => bk += 1,
                Some((Kind::Pawn, _)) if rank_of(s) == 0 || rank_of(s) == 7 => return false,
                _ => {}
            }
        }
        if wk != 1 || bk != 1 {
            return false;
        }
        if self.in_check(self.stm.other()) {
            return false;
        }
        let need = |bit: u8, ks: Sq, kside: Side, rs: Sq| -> bool {
            self.castle & bit == 0 || (self.sq[ks as usize] == Some((Kind::King, kside)) && self.sq[rs as usize] == Some((Kind::Rook, kside)))
        };
        if !(need(WK, E1, Side::White, H1) && need(WQ, E1, Side::White, A1) && need(BK, E8, Side::Black, H8) && need(BQ, E8, Side::Black, A8)) {
            return false;
        }
        if let Some(e) = self.ep {
            // the mover is the side that did NOT make the double step
            let (er, pr, br) = if self.stm == Side::Black { (2, 3, 1) } else { (5, 4, 6) };
            if rank_of(e) != er {
                return false;
            }
            let f = file_of(e);
            let pawn = mk_sq(f, pr).unwrap();
            let behind = mk_sq(f, br).unwrap();
            if self.sq[pawn as usize] != Some((Kind::Pawn, self.stm.other())) || self.sq[e as usize].is_some() || self.sq[behind as usize].is_some() {
                return false;
            }
        }
        true
    }

    /// colour-swapped, 180-degree rotated position (for C18)
    pub fn mirrored_rot180(&self) -> Pos {
        let mut n = Pos::empty();
        for s in 0..64usize {
            if let Some((k, side)) = self.sq[s] {
                n.sq[63 - s] = Some((k, side.other()));
            }
        }
        n.stm = self.stm.other();
        n
    }
}

pub fn uci(m: &Move) -> String {
    let mut s = format!("{}{}", sq_name(m.from), sq_name(m.to));
    if let MoveKind::Promotion(p) = m.kind {
        s.push(match p {
            Kind::Queen => 'q',
            Kind::Rook => 'r',
            Kind::Bishop => 'b',
            Kind::Knight => 'n',
            _ => '?',
        });
    }
    s
}

/// (name, fen, published perft values for depth 1..)
pub const PERFT_SUITE: [(&str, &str, &[u64]); 6] = [
    ("startpos", "rnbqkbnr/pppppppp/8/8/8/8/PPPPPPPP/RNBQKBNR w KQkq - 0 1", &[20, 400, 8902, 197281, 4865609]),
    ("kiwipete", "r3k2r/p1ppqpb1/bn2pnp1/3PN3/1p2P3/2N2Q1p/PPPBBPPP/R3K2R w KQkq - 0 1", &[48, 2039, 97862, 4085603]),
    ("pos3", "8/2p5/3p4/KP5r/1R3p1k/8/4P1P1/8 w - - 0 1", &[14, 191, 2812, 43238, 674624]),
    ("pos4", "r3k2r/Pppp1ppp/1b3nbN/nP6/BBP1P3/q4N2/Pp1P2PP/R2Q1RK1 w kq - 0 1", &[6, 264, 9467, 422333]),
    ("pos5", "rnbq1k1r/pp1Pbppp/2p5/8/2B5/8/PPP1NnPP/RNBQK2R w KQ - 1 8", &[44, 1486, 62379, 2103487]),
    ("pos6", "r4rk1/1pp1qppp/p1np1n2/2b1p1B1/2B1P1b1/P1NP1N2/1PP1QPPP/R4RK1 w - - 0 10", &[46, 2079, 89890, 3894594]),
];

/// Validate the model against the published perft tables up to `max_nodes` per entry.
/// Returns the number of table entries reproduced, or an error description.
pub fn selftest(max_nodes: u64) -> Result<usize, String> {
    use rayon::prelude::*;
    let mut jobs = Vec::new();
    for (name, fen, vals) in PERFT_SUITE.iter() {
        for (i, &v) in vals.iter().enumerate() {
            if v <= max_nodes {
                jobs.push((*name, *fen, i as u32 + 1, v));
            }
        }
    }
    let res: Vec<Result<(), String>> = jobs
        .par_iter()
        .map(|(name, fen, d, v)| {
            let p = Pos::from_fen(fen)?;
            if !p.is_consistent() {
                return Err(format!("perft seed {} judged inconsistent", name));
            }
            let got = p.perft(*d);
            if got != *v {
                Err(format!("refchess perft mismatch on {} depth {}: got {} expected {}", name, d, got, v))
            } else {
                Ok(())
            }
        })
        .collect();
    for r in &res {
        if let Err(e) = r {
            return Err(e.clone());
        }
    }
    Ok(res.len())
}
