//! Controlled scheduler for the REAL rayon root-move tasks of `alpha_beta_search`.
//!
//! The engine's hook events (feature `verif-hooks`) are routed, by a thread-local set in each
//! pool thread's start handler, to the `Sched` of the explorer that owns the pool.  A task
//! parks at every yield point (task ready, before a shared-cache read, before a shared-cache
//! store) until the controller grants it the next step, so exactly one task runs at a time
//! and an execution is a deterministic function of the controller's choice sequence.

use chess::verif_hooks::{Event, Observer};
use rustc_hash::{FxHashMap, FxHashSet};
use std::cell::{Cell, RefCell};
use std::sync::{Arc, Condvar, Mutex};
use std::time::{Duration, Instant};

pub type FullKey = (u64, u8, bool, i16, i16);

#[derive(Clone, Copy, Debug, PartialEq, Eq)]
pub enum Op {
    Ready,
    Read(FullKey),
    Store(FullKey, i16),
}

#[derive(Clone, Copy, Debug, PartialEq, Eq)]
pub enum TStatus {
    NotStarted,
    Parked(Op),
    Running,
    Done,
    Panicked,
}

pub struct State {
    pub active: bool,
    pub names: Vec<String>,
    pub status: Vec<TStatus>,
    pub grant: Option<usize>,
    /// (task, op kind 0 ready / 1 read / 2 store, key digest) for every granted step
    pub trace: Vec<(u8, u8, u64)>,
    pub mirror: FxHashMap<FullKey, i16>,
    pub conflicting_stores: u64,
    pub accessed: Vec<FxHashSet<FullKey>>,
    pub stored: Vec<FxHashSet<FullKey>>,
    pub reads_hitting_other_tasks_entry: u64,
    pub owner: FxHashMap<FullKey, usize>,
}

pub struct Sched {
    pub m: Mutex<State>,
    /// the controller waits here
    pub cv: Condvar,
    /// task i waits on cv_task[i % 64] (one waiter per condvar in practice: no thundering herd)
    pub cv_task: Vec<Condvar>,
}

thread_local! {
    static CUR: RefCell<Option<Arc<Sched>>> = RefCell::new(None);
    static TASK: Cell<Option<usize>> = Cell::new(None);
}

/// called from the start handler of every thread of an explorer's pool
pub fn bind_thread(s: Arc<Sched>) {
    CUR.with(|c| *c.borrow_mut() = Some(s));
}

/// called from the process panic hook: a panicking task will never reach TaskDone
pub fn on_thread_panic() {
    let sched = CUR.with(|c| c.borrow().clone());
    if let (Some(s), Some(t)) = (sched, TASK.with(|t| t.get())) {
        // the mutex may be poisoned by an earlier panic; recover the guard either way
        let mut st = match s.m.lock() {
            Ok(g) => g,
            Err(p) => p.into_inner(),
        };
        if st.active && t < st.status.len() {
            st.status[t] = TStatus::Panicked;
            s.cv.notify_all();
        }
    }
}

fn digest(k: &FullKey) -> u64 {
    let mut h = k.0 ^ ((k.1 as u64) << 56) ^ ((k.2 as u64) << 55);
    h = h.wrapping_mul(0x9E3779B97F4A7C15) ^ ((k.3 as u16 as u64) << 16) ^ (k.4 as u16 as u64);
    h.wrapping_mul(0xD6E8FEB86659FD93)
}

pub struct Router;

/// Free-running cross-check only: microseconds by which every READ critical section of the
/// shared search state is stretched (busy wait right after the read lock is granted), so that
/// writers queue up behind live readers. std's futex RwLock refuses new readers while a writer
/// waits, so a reader that takes a second read guard in such a state — through code the hooks
/// do not announce — blocks for good and the hang watchdog fires.
pub static STRETCH_READERS_US: std::sync::atomic::AtomicU32 = std::sync::atomic::AtomicU32::new(0);
/// with this set, a stretched reader goes on as soon as some thread has announced a write-lock
/// request that has not been granted yet (a writer is queued), or after the stretch time
pub static STRETCH_UNTIL_WRITER: std::sync::atomic::AtomicBool = std::sync::atomic::AtomicBool::new(false);
static WRITERS_WAITING: std::sync::atomic::AtomicI32 = std::sync::atomic::AtomicI32::new(0);

impl Observer for Router {
    fn on_event(&self, ev: &Event) {
        if matches!(ev, Event::LockWillAcquire { .. } | Event::LockAcquired { .. } | Event::LockReleased { .. }) {
            crate::props::c09_locks::record(ev);
            use std::sync::atomic::Ordering::Relaxed;
            match ev {
                Event::LockWillAcquire { write: true, .. } => {
                    WRITERS_WAITING.fetch_add(1, Relaxed);
                }
                Event::LockAcquired { write: true, .. } => {
                    WRITERS_WAITING.fetch_sub(1, Relaxed);
                }
                Event::LockAcquired { write: false, .. } => {
                    let us = STRETCH_READERS_US.load(Relaxed);
                    if us > 0 {
                        // plain stretch, or (UNTIL_WRITER) only until some writer is waiting for a lock
                        let until_writer = STRETCH_UNTIL_WRITER.load(Relaxed);
                        let t = std::time::Instant::now();
                        while t.elapsed().as_micros() < us as u128 {
                            if until_writer && WRITERS_WAITING.load(Relaxed) > 0 {
                                break;
                            }
                            std::hint::spin_loop();
                        }
                    }
                }
                _ => {}
            }
            return;
        }
        let sched = match CUR.with(|c| c.borrow().clone()) {
            Some(s) => s,
            None => return,
        };
        let op = match ev {
            Event::TaskReady { .. } => Op::Ready,
            Event::BeforeCacheRead { key, depth, maximizing, alpha, beta } => Op::Read((*key, *depth, *maximizing, *alpha, *beta)),
            Event::BeforeCacheStore { key, depth, maximizing, alpha, beta, score } => Op::Store((*key, *depth, *maximizing, *alpha, *beta), *score),
            Event::TaskDone { .. } => {
                let mut st = sched.m.lock().unwrap();
                if !st.active {
                    return;
                }
                if let Some(t) = TASK.with(|t| t.take()) {
                    st.status[t] = TStatus::Done;
                    sched.cv.notify_all();
                }
                return;
            }
            _ => return,
        };
        let mut st = sched.m.lock().unwrap();
        if !st.active {
            return;
        }
        let idx = match ev {
            Event::TaskReady { root_move } => {
                let i = st.names.iter().position(|n| n == root_move).expect("scheduler: unknown root move");
                TASK.with(|t| t.set(Some(i)));
                i
            }
            _ => match TASK.with(|t| t.get()) {
                Some(i) => i,
                None => return, // not inside a root task (e.g. a search run outside the controlled phase)
            },
        };
        st.status[idx] = TStatus::Parked(op);
        sched.cv.notify_all();
        while st.grant != Some(idx) {
            st = sched.cv_task[idx % 64].wait(st).unwrap();
        }
        st.grant = None;
        st.status[idx] = TStatus::Running;
        // the step now being executed performs `op`: record it
        match op {
            Op::Ready => st.trace.push((idx as u8, 0, 0)),
            Op::Read(k) => {
                st.trace.push((idx as u8, 1, digest(&k)));
                st.accessed[idx].insert(k);
                if st.mirror.contains_key(&k) && st.owner.get(&k) != Some(&idx) {
                    st.reads_hitting_other_tasks_entry += 1;
                }
            }
            Op::Store(k, v) => {
                st.trace.push((idx as u8, 2, digest(&k) ^ (v as u16 as u64)));
                st.accessed[idx].insert(k);
                st.stored[idx].insert(k);
                if let Some(old) = st.mirror.insert(k, v) {
                    if old != v {
                        st.conflicting_stores += 1;
                    }
                }
                st.owner.insert(k, idx);
            }
        }
    }
}

impl Sched {
    pub fn new() -> Arc<Sched> {
        Arc::new(Sched {
            m: Mutex::new(State {
                active: false,
                names: vec![],
                status: vec![],
                grant: None,
                trace: vec![],
                mirror: FxHashMap::default(),
                conflicting_stores: 0,
                accessed: vec![],
                stored: vec![],
                reads_hitting_other_tasks_entry: 0,
                owner: FxHashMap::default(),
            }),
            cv: Condvar::new(),
            cv_task: (0..64).map(|_| Condvar::new()).collect(),
        })
    }

    /// arm for one controlled search over the given root moves (sorted names)
    pub fn arm(&self, names: Vec<String>, keep_mirror: bool) {
        let mut st = self.m.lock().unwrap();
        let n = names.len();
        st.names = names;
        st.status = vec![TStatus::NotStarted; n];
        st.grant = None;
        st.trace.clear();
        if !keep_mirror {
            st.mirror.clear();
            st.owner.clear();
        } else {
            // entries left by the warm-up search belong to no task of this search
            st.owner.clear();
        }
        st.conflicting_stores = 0;
        st.reads_hitting_other_tasks_entry = 0;
        st.accessed = vec![FxHashSet::default(); n];
        st.stored = vec![FxHashSet::default(); n];
        st.active = true;
    }

    pub fn disarm(&self) {
        let mut st = self.m.lock().unwrap();
        st.active = false;
        st.grant = None;
        self.cv.notify_all();
        for c in &self.cv_task {
            c.notify_all();
        }
    }

    /// wait until every task is parked (at Ready) — true on success
    pub fn wait_all_ready(&self, timeout: Duration) -> bool {
        let deadline = Instant::now() + timeout;
        let mut st = self.m.lock().unwrap();
        loop {
            if st.status.iter().all(|s| matches!(s, TStatus::Parked(_))) {
                return true;
            }
            let now = Instant::now();
            if now >= deadline {
                return false;
            }
            st = self.cv.wait_timeout(st, deadline - now).unwrap().0;
        }
    }

    /// grant one step to `task`; returns its status after the step (Parked / Done / Panicked),
    /// or None on timeout (hang)
    pub fn step(&self, task: usize, timeout: Duration) -> Option<TStatus> {
        let deadline = Instant::now() + timeout;
        let mut st = self.m.lock().unwrap();
        st.grant = Some(task);
        st.status[task] = TStatus::Running;
        self.cv_task[task % 64].notify_all();
        loop {
            match st.status[task] {
                TStatus::Running => {}
                s => {
                    if st.grant.is_none() || !matches!(s, TStatus::Parked(_)) {
                        return Some(s);
                    }
                }
            }
            let now = Instant::now();
            if now >= deadline {
                return None;
            }
            st = self.cv.wait_timeout(st, deadline - now).unwrap().0;
        }
    }
}

#[derive(Clone, Debug)]
pub struct Point {
    /// canonical order: the running task first if it is still enabled, then ascending ids
    pub enabled: Vec<usize>,
    /// true: the running task yielded (a non-default choice is a preemption);
    /// false: the running task finished / nothing was running (a non-default choice is an order deviation)
    pub preemptive: bool,
}

#[derive(Clone, Debug, Default)]
pub struct ExecRecord {
    pub points: Vec<Point>,
    pub choices: Vec<usize>,
    pub trace_hash: u64,
    pub steps: u64,
    pub cache_digest: u64,
    pub cache_entries: usize,
    pub conflicting_stores: u64,
    pub cross_task_hits: u64,
    pub hang: Option<String>,
    pub shared_keys: FxHashSet<FullKey>,
}

pub enum ChoiceMode<'a> {
    /// every shared-cache operation is a choice point
    All,
    /// only operations on keys in this set are choice points
    Shared(&'a FxHashSet<FullKey>),
}

/// Drive one controlled search to completion following `prefix` (then default choices).
/// The search itself must already be running on another thread inside the explorer's pool.
/// which task is taken by default (beyond the prefix) when the running task has finished
#[derive(Clone, Copy, Debug, PartialEq, Eq)]
pub enum OrderPolicy {
    /// lowest index first (the order of the sorted root-move names)
    First,
    /// highest index first (the reverse order)
    Last,
    /// start with task k, then ascending, wrapping around
    Rotate(usize),
}

pub fn control(s: &Sched, prefix: &[usize], mode: &ChoiceMode, step_timeout: Duration) -> Result<ExecRecord, String> {
    control_with_policy(s, prefix, mode, step_timeout, OrderPolicy::First)
}

pub fn control_with_policy(s: &Sched, prefix: &[usize], mode: &ChoiceMode, step_timeout: Duration, policy: OrderPolicy) -> Result<ExecRecord, String> {
    let mut rec = ExecRecord::default();
    if !s.wait_all_ready(Duration::from_secs(120)) {
        return Err("not every root task reached its first yield point (pool too small?)".into());
    }
    let mut current: Option<usize> = None;
    loop {
        let (enabled_all, cur_parked): (Vec<usize>, Option<Op>) = {
            let st = s.m.lock().unwrap();
            let en: Vec<usize> = (0..st.status.len()).filter(|&i| matches!(st.status[i], TStatus::Parked(_))).collect();
            let cp = current.and_then(|c| match st.status[c] {
                TStatus::Parked(op) => Some(op),
                _ => None,
            });
            (en, cp)
        };
        if enabled_all.is_empty() {
            break;
        }
        let next = match (current, cur_parked) {
            (Some(c), Some(op)) => {
                let is_choice = match (mode, op) {
                    (_, Op::Ready) => false,
                    (ChoiceMode::All, _) => true,
                    (ChoiceMode::Shared(set), Op::Read(k)) | (ChoiceMode::Shared(set), Op::Store(k, _)) => set.contains(&k),
                };
                if !is_choice || enabled_all.len() == 1 {
                    c
                } else {
                    let mut en = vec![c];
                    en.extend(enabled_all.iter().copied().filter(|&i| i != c));
                    let i = rec.points.len();
                    let ch = if i < prefix.len() { prefix[i] } else { 0 };
                    if ch >= en.len() {
                        return Err(format!("replay divergence: choice {} out of range at point {} (enabled {:?})", ch, i, en));
                    }
                    let t = en[ch];
                    rec.points.push(Point { enabled: en, preemptive: true });
                    rec.choices.push(ch);
                    t
                }
            }
            _ => {
                if enabled_all.len() == 1 {
                    enabled_all[0]
                } else {
                    // canonical order of the enabled tasks under the policy: choice 0 is the policy's default
                    let mut enabled_all = enabled_all.clone();
                    match policy {
                        OrderPolicy::First => {}
                        OrderPolicy::Last => enabled_all.reverse(),
                        OrderPolicy::Rotate(k) => {
                            let n = s.m.lock().unwrap().status.len().max(1);
                            enabled_all.sort_by_key(|t| (t + n - (k % n)) % n);
                        }
                    }
                    let i = rec.points.len();
                    let ch = if i < prefix.len() { prefix[i] } else { 0 };
                    if ch >= enabled_all.len() {
                        return Err(format!("replay divergence: choice {} out of range at point {} (enabled {:?})", ch, i, enabled_all));
                    }
                    let t = enabled_all[ch];
                    rec.points.push(Point { enabled: enabled_all.clone(), preemptive: false });
                    rec.choices.push(ch);
                    t
                }
            }
        };
        rec.steps += 1;
        match s.step(next, step_timeout) {
            Some(_) => {}
            None => {
                rec.hang = Some(format!("task {} did not reach its next yield point within {:?}", next, step_timeout));
                return Ok(rec);
            }
        }
        current = Some(next);
    }
    if rec.points.len() < prefix.len() {
        return Err(format!("replay divergence: execution has {} choice points, prefix has {}", rec.points.len(), prefix.len()));
    }
    let st = s.m.lock().unwrap();
    let mut h = 0xcbf29ce484222325u64;
    for (t, k, d) in &st.trace {
        h = (h ^ (*t as u64) ^ ((*k as u64) << 8) ^ d).wrapping_mul(0x100000001b3);
    }
    rec.trace_hash = h;
    let mut cd = 0u64;
    for (k, v) in st.mirror.iter() {
        cd ^= digest(k).wrapping_add((*v as u16 as u64).wrapping_mul(0x9E3779B97F4A7C15));
    }
    rec.cache_digest = cd;
    rec.cache_entries = st.mirror.len();
    rec.conflicting_stores = st.conflicting_stores;
    rec.cross_task_hits = st.reads_hitting_other_tasks_entry;
    // keys touched by two different tasks
    let mut count: FxHashMap<FullKey, u8> = FxHashMap::default();
    for set in st.accessed.iter() {
        for k in set {
            *count.entry(*k).or_insert(0) += 1;
        }
    }
    rec.shared_keys = count.into_iter().filter(|(_, c)| *c >= 2).map(|(k, _)| k).collect();
    Ok(rec)
}
