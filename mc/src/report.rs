//! Evidence, violations, replay artefacts and known-findings handling.

use serde_json::{json, Value};
use std::collections::BTreeMap;
use std::sync::Mutex;
use std::time::Instant;

/// where evidence / replays / known_findings.json live: $VERIF_HOME (set by ./check to its own
/// directory, so that a snapshot copy writes into the snapshot) or /verif
pub fn verif_dir() -> String {
    std::env::var("VERIF_HOME").unwrap_or_else(|_| "/verif".to_string())
}

#[derive(Clone, Debug)]
pub struct Violation {
    pub prop: String,
    /// violation class: which observable failed under which condition
    pub class: String,
    /// seed position (FEN) or other root description
    pub seed: String,
    /// moves (UCI, as the model names them) from the seed to the failing state / transition
    pub path: Vec<String>,
    pub detail: String,
    /// free-form machine-readable witness (schedule, history, inputs ...)
    pub extra: Value,
}

impl Violation {
    pub fn witness_text(&self) -> String {
        format!("seed={} path={} detail={} extra={}", self.seed, self.path.join(" "), self.detail, self.extra)
    }
    pub fn to_json(&self) -> Value {
        json!({"property": self.prop, "class": self.class, "seed": self.seed, "path": self.path, "detail": self.detail, "extra": self.extra})
    }
}

/// Thread-safe violation sink: keeps the first `cap` per class (shortest path first is
/// guaranteed by the caller's depth-ordered exploration only approximately under
/// parallelism, so we also replace a kept witness by a strictly shorter one).
pub struct Sink {
    pub cap: usize,
    inner: Mutex<BTreeMap<String, (u64, Vec<Violation>)>>,
}

impl Sink {
    pub fn new(cap: usize) -> Sink {
        Sink { cap, inner: Mutex::new(BTreeMap::new()) }
    }
    pub fn push(&self, v: Violation) {
        let mut g = self.inner.lock().unwrap();
        let e = g.entry(format!("{}/{}", v.prop, v.class)).or_insert((0, Vec::new()));
        e.0 += 1;
        if e.1.len() < self.cap {
            e.1.push(v);
        } else {
            // keep shortest witnesses
            let (mut worst, mut worst_len) = (0usize, 0usize);
            for (i, w) in e.1.iter().enumerate() {
                if w.path.len() >= worst_len {
                    worst = i;
                    worst_len = w.path.len();
                }
            }
            if v.path.len() < worst_len {
                e.1[worst] = v;
            }
        }
    }
    pub fn count(&self) -> u64 {
        self.inner.lock().unwrap().values().map(|e| e.0).sum()
    }
    pub fn take(&self) -> BTreeMap<String, (u64, Vec<Violation>)> {
        std::mem::take(&mut *self.inner.lock().unwrap())
    }
}

pub struct Report {
    pub prop: String,
    pub tier: String,
    pub seed: u64,
    pub start: Instant,
    pub states: u64,
    pub transitions: u64,
    pub traces: u64,
    pub exhaustive: bool,
    pub samples: Vec<Value>,
    pub counters: BTreeMap<String, u64>,
    pub assumptions: Vec<String>,
    pub bounds: Value,
    pub rule: String,
    pub notes: Vec<String>,
    /// counters that must be non-zero for the run to be considered non-vacuous
    pub mandatory: Vec<String>,
}

impl Report {
    pub fn new(prop: &str, tier: &str, seed: u64) -> Report {
        Report {
            prop: prop.to_string(),
            tier: tier.to_string(),
            seed,
            start: Instant::now(),
            states: 0,
            transitions: 0,
            traces: 0,
            exhaustive: true,
            samples: Vec::new(),
            counters: BTreeMap::new(),
            assumptions: Vec::new(),
            bounds: json!({}),
            rule: String::new(),
            notes: Vec::new(),
            mandatory: Vec::new(),
        }
    }
    pub fn add(&mut self, k: &str, n: u64) {
        *self.counters.entry(k.to_string()).or_insert(0) += n;
    }
    pub fn merge_counters(&mut self, c: &BTreeMap<String, u64>) {
        for (k, v) in c {
            self.add(k, *v);
        }
    }

    /// Write evidence + replays, print verdict lines, return the process exit code.
    pub fn finish(mut self, sink: &Sink) -> i32 {
        let all = sink.take();
        let known = load_known();
        let mut new_violations: Vec<Violation> = Vec::new();
        let mut known_hits: BTreeMap<String, (String, u64)> = BTreeMap::new();
        let mut total = 0u64;
        let mut class_counts = BTreeMap::new();
        for (cls, (n, vs)) in &all {
            total += n;
            class_counts.insert(cls.clone(), *n);
            for v in vs {
                match known.iter().find(|k| k.matches(v)) {
                    Some(k) => {
                        let e = known_hits.entry(k.id.clone()).or_insert((k.what.clone(), 0));
                        e.1 += 1;
                    }
                    None => new_violations.push(v.clone()),
                }
            }
        }
        // vacuity
        let mut vacuous = Vec::new();
        for m in &self.mandatory {
            if self.counters.get(m).copied().unwrap_or(0) == 0 {
                vacuous.push(m.clone());
            }
        }
        let wall = self.start.elapsed().as_secs_f64();
        if self.samples.is_empty() {
            self.samples.push(json!("(no sample recorded)"));
        }
        let mut replay_paths = Vec::new();
        let child = std::env::var("VERIF_DRAW_CHILD").is_ok();
        for (i, v) in new_violations.iter().enumerate() {
            if child {
                break;
            }
            let cls = v.class.replace('/', "_").replace(' ', "_");
            let p = format!("{}/replays/{}_{}_{}_{}.json", verif_dir(), self.prop, self.tier, cls, i);
            let mut j = v.to_json();
            j["tier"] = json!(self.tier);
            let _ = std::fs::create_dir_all(format!("{}/replays", verif_dir()));
            let _ = std::fs::write(&p, serde_json::to_string_pretty(&j).unwrap());
            replay_paths.push(p);
        }
        let ev = json!({
            "property_id": self.prop,
            "tier": self.tier,
            "seed": self.seed,
            "level": "model_checking",
            "coverage": {
                "states": self.states,
                "transitions": self.transitions,
                "traces_validated_against_impl": self.traces,
                "samples": self.samples,
                "exhaustive": self.exhaustive,
                "rule": self.rule,
                "bounds": self.bounds,
                "counters": self.counters,
                "violation_classes": class_counts,
                "known_findings_matched": known_hits.iter().map(|(k, v)| json!({"id": k, "what": v.0, "witnesses": v.1})).collect::<Vec<_>>(),
                "notes": self.notes,
            },
            "assumptions": self.assumptions,
            "wall_s": (wall * 1000.0).round() / 1000.0,
            "violations": total,
        });
        if std::env::var("VERIF_DRAW_CHILD").is_ok() {
            // a rebuilt-draw child of a thorough run: report to the parent on stdout, write nothing
            let summary = json!({"states": self.states, "transitions": self.transitions, "violations": total, "violation_classes": ev["coverage"]["violation_classes"], "counters": self.counters, "notes": self.notes,
                "first_violations": new_violations.iter().take(3).map(|v| v.to_json()).collect::<Vec<_>>(), "vacuous": vacuous});
            println!("DRAW-RESULT {}", summary);
            return if !new_violations.is_empty() { 1 } else if !vacuous.is_empty() { 2 } else { 0 };
        }
        let _ = std::fs::create_dir_all(format!("{}/evidence", verif_dir()));
        let evp = format!("{}/evidence/{}.json", verif_dir(), self.prop);
        if let Err(e) = std::fs::write(&evp, serde_json::to_string_pretty(&ev).unwrap()) {
            eprintln!("MACHINERY-ERROR: cannot write evidence {}: {}", evp, e);
            return 2;
        }
        println!(
            "[{} {}] states={} transitions={} traces_validated={} exhaustive={} violations={} wall={:.1}s",
            self.prop, self.tier, self.states, self.transitions, self.traces, self.exhaustive, total, wall
        );
        for (k, v) in &self.counters {
            println!("  counter {} = {}", k, v);
        }
        for (id, (what, n)) in &known_hits {
            println!("KNOWN-FINDING: property={} {} [{}; {} witness(es) kept]", self.prop, what, id, n);
        }
        if !vacuous.is_empty() && new_violations.is_empty() {
            eprintln!("MACHINERY-ERROR: vacuous run, mandatory counters are zero: {:?}", vacuous);
            return 2;
        }
        if !new_violations.is_empty() {
            if !vacuous.is_empty() {
                println!("  note: mandatory counters are zero ({:?}); the violations below stand on their own", vacuous);
            }
            for (v, p) in new_violations.iter().zip(replay_paths.iter()) {
                println!("  violation class={} seed=\"{}\" path=[{}] :: {}", v.class, v.seed, v.path.join(" "), v.detail);
                println!("VIOLATION property={} replay={}", self.prop, p);
            }
            return 1;
        }
        0
    }
}

pub struct Known {
    pub id: String,
    pub status: String,
    pub property: String,
    pub class: String,
    pub contains: Vec<String>,
    pub what: String,
}

impl Known {
    pub fn matches(&self, v: &Violation) -> bool {
        if self.status != "known" || self.property != v.prop || self.class != v.class {
            return false;
        }
        let w = v.witness_text();
        self.contains.iter().all(|c| w.contains(c))
    }
}

pub fn load_known() -> Vec<Known> {
    let p = format!("{}/known_findings.json", verif_dir());
    let txt = match std::fs::read_to_string(&p) {
        Ok(t) => t,
        Err(_) => return Vec::new(),
    };
    let v: Value = match serde_json::from_str(&txt) {
        Ok(v) => v,
        Err(e) => {
            eprintln!("MACHINERY-ERROR: known_findings.json unreadable: {}", e);
            std::process::exit(2);
        }
    };
    let mut out = Vec::new();
    if let Some(arr) = v.get("findings").and_then(|f| f.as_array()) {
        for f in arr {
            let s = |k: &str| f.get(k).and_then(|x| x.as_str()).unwrap_or("").to_string();
            out.push(Known {
                id: s("id"),
                status: s("status"),
                property: s("property"),
                class: s("class"),
                contains: f.get("witness_contains").and_then(|x| x.as_array()).map(|a| a.iter().filter_map(|x| x.as_str().map(|s| s.to_string())).collect()).unwrap_or_default(),
                what: s("what"),
            });
        }
    }
    out
}

/// A search that never returns cannot be unwound: report the hang from a watchdog thread,
/// write a minimal evidence file and replay artefact, and exit with the violation status.
pub fn emergency_violation(prop: &str, tier: &str, seed: u64, v: &Violation, states_so_far: u64) -> ! {
    let p = format!("{}/replays/{}_{}_{}_hang.json", verif_dir(), prop, tier, v.class.replace('/', "_"));
    let _ = std::fs::create_dir_all(format!("{}/replays", verif_dir()));
    let _ = std::fs::write(&p, serde_json::to_string_pretty(&v.to_json()).unwrap());
    let ev = json!({
        "property_id": prop, "tier": tier, "seed": seed, "level": "model_checking",
        "coverage": {"states": states_so_far.max(1), "transitions": states_so_far.max(1), "traces_validated_against_impl": states_so_far, "samples": [v.to_json()], "exhaustive": false,
                     "notes": ["run aborted by the watchdog: a call into the subject did not return"]},
        "assumptions": [], "wall_s": 0.0, "violations": 1
    });
    let _ = std::fs::write(format!("{}/evidence/{}.json", verif_dir(), prop), serde_json::to_string_pretty(&ev).unwrap());
    println!("  violation class={} seed=\"{}\" :: {}", v.class, v.seed, v.detail);
    println!("VIOLATION property={} replay={}", prop, p);
    std::process::exit(1);
}

/// Run `f` (which calls into the subject) under a watchdog: if it does not return within
/// `limit_s` seconds the hang is reported as a violation of `prop` and the process exits 1.
pub fn with_hang_watchdog<T>(prop: &str, tier: &str, seed: u64, class: &str, what: String, limit_s: u64, f: impl FnOnce() -> T) -> T {
    let done = std::sync::Arc::new(std::sync::atomic::AtomicBool::new(false));
    let d2 = done.clone();
    let (prop, tier, class) = (prop.to_string(), tier.to_string(), class.to_string());
    let h = std::thread::spawn(move || {
        let t0 = Instant::now();
        while !d2.load(std::sync::atomic::Ordering::SeqCst) {
            std::thread::sleep(std::time::Duration::from_millis(100));
            if t0.elapsed().as_secs() > limit_s {
                let v = Violation { prop: prop.clone(), class: class.clone(), seed: what.clone(), path: vec![], detail: format!("no answer within {} s: {}", limit_s, what), extra: json!({"kind": "hang", "what": what}) };
                emergency_violation(&prop, &tier, seed, &v, 1);
            }
        }
    });
    let r = f();
    done.store(true, std::sync::atomic::Ordering::SeqCst);
    let _ = h.join();
    r
}
