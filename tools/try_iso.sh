#!/bin/bash
# usage: tools/try_iso.sh <abs patch.diff> <tier> <Cxx> [Cyy ...]     (or "ALL" for every property)
# Like try_mutant.sh but fully isolated: the patch is applied to a scratch worktree of /repo
# (/tmp/wt-trial), the harness is copied to /tmp/verif-trial with its path dependencies pointing
# at that worktree and its own target directory, and evidence / replays go to /tmp/verif-trial.
# TRIAL_TAG=<name> selects another pair of scratch directories so two trials can run side by side.
# Neither /repo nor /verif is touched, so it can run while other checks use them.
set -u
PATCH="$1"; TIER="$2"; shift 2
TAG="${TRIAL_TAG:-trial}"; WT=/tmp/wt-$TAG; TR=/tmp/verif-$TAG
if [ ! -d "$WT" ]; then git -C /repo worktree add --detach "$WT" HEAD >/dev/null 2>&1 || { echo "cannot create worktree"; exit 2; }; fi
git -C "$WT" checkout -q --detach "$(git -C /repo rev-parse HEAD)" 2>/dev/null
git -C "$WT" reset -q --hard HEAD; git -C "$WT" clean -fdq -- src common precompile tests 2>/dev/null
if ! git -C "$WT" apply "$PATCH" 2>/dev/null; then echo "patch does not apply: $PATCH"; exit 2; fi
mkdir -p "$TR/evidence" "$TR/replays"
rsync -a --delete --exclude target /verif/mc/ "$TR/mc/"
sed -i "s#/repo#$WT#g" "$TR/mc/Cargo.toml"
sed -i "s#target-dir = .*#target-dir = \"$TR/target\"#" "$TR/mc/.cargo/config.toml"
cp /verif/known_findings.json "$TR/"
export CARGO_NET_OFFLINE=true CARGO_TARGET_DIR="$TR/target" VERIF_HOME="$TR"
if git -C "$WT" diff --name-only | grep -q -E "^precompile/|^opening_lines.txt"; then rm -f "$TR"/target/release/build/chess-*/out/*.rs; rm -rf "$TR"/target/release/.fingerprint/chess-*; fi
if ! (cd "$TR/mc" && cargo build --release --offline >"$TR/build.log" 2>&1); then tail -5 "$TR/build.log"; echo "BUILD FAILED"; exit 2; fi
LIST="$*"; [ "$LIST" = "ALL" ] && LIST="C01 C02 C03 C04 C05 C06 C07 C08 C09 C10 C11 C12 C13 C14 C15 C16 C17 C18 C19"
for P in $LIST; do
  out=$("$TR/target/release/mc" "$P" --tier "$TIER" 2>&1); rc=$?
  line=$(echo "$out" | grep -m1 -E "violation class=|MACHINERY-ERROR" | cut -c1-260)
  echo "$P rc=$rc $(echo "$out" | grep -m1 -E '^\[C[0-9]+ ' | cut -c1-100) :: $line"
done
# leave generated tables consistent for the next (possibly pristine) trial
if git -C "$WT" diff --name-only | grep -q -E "^precompile/|^opening_lines.txt"; then rm -f "$TR"/target/release/build/chess-*/out/*.rs; rm -rf "$TR"/target/release/.fingerprint/chess-*; fi
git -C "$WT" reset -q --hard HEAD
