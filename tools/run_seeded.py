#!/usr/bin/env python3
"""Regression run of the seeded property-breaking changes.
For every /verif/seeded/<id>/ : apply patch.diff to /repo, run the quick checks named in
meta.json (caught_by_quick_checks, or the given list), revert; then write seeded/INDEX.md.
usage: tools/run_seeded.py [id-substring ...]
       SHARD=i/n tools/run_seeded.py      (every n-th seed, scratch dirs /tmp/*-reg<i>; no INDEX.md)
       tools/run_seeded.py --index-only   (write INDEX.md from the last_regression fields)"""
import json, os, subprocess, sys, glob, re
os.chdir("/verif")
sel = [a for a in sys.argv[1:] if not a.startswith("--")]
index_only = "--index-only" in sys.argv
shard = os.environ.get("SHARD")
si, sn = (int(x) for x in shard.split("/")) if shard else (0, 1)
tag = "reg%d" % si if shard else "reg"
rows = []
idx = -1
for d in sorted(glob.glob("seeded/*/")):
    sid = os.path.basename(d.rstrip("/"))
    if sel and not any(s in sid for s in sel):
        continue
    idx += 1
    if idx % sn != si:
        continue
    meta = json.load(open(d + "meta.json"))
    if meta.get("not_caught"):
        rows.append((sid, meta["property_broken"], [], {}, True, meta.get("not_caught_by", []), meta.get("note", "")))
        print(sid, "SKIPPED (recorded as not caught)", flush=True)
        continue
    if not meta.get("caught_by_quick_checks") and meta.get("caught_by_thorough_checks"):
        rows.append((sid, meta["property_broken"], [], {}, True, meta.get("not_caught_by", []), "thorough tier only (" + ", ".join(meta["caught_by_thorough_checks"]) + "); not re-run by the quick regression. " + meta.get("note", "")))
        print(sid, "SKIPPED (thorough only)", flush=True)
        continue
    checks = meta.get("caught_by_quick_checks") or [meta["property_broken"][:3]]
    if index_only:
        res = {c: (v["rc"], v["first_class"]) for c, v in meta.get("last_regression", {}).items()}
        out = ""
    else:
        out = subprocess.run(["env", "TRIAL_TAG=" + tag, "tools/try_iso.sh", os.path.abspath(d + "patch.diff"), "quick"] + checks, capture_output=True, text=True).stdout
        res = {}
        for line in out.splitlines():
            m = re.match(r"(C\d\d) rc=(\d)", line)
            if m:
                cls = re.search(r"violation class=(\S+)", line)
                res[m.group(1)] = (int(m.group(2)), cls.group(1) if cls else "")
        meta["last_regression"] = {c: {"rc": r[0], "first_class": r[1]} for c, r in res.items()}
        json.dump(meta, open(d + "meta.json", "w"), indent=1)
    ok = all(res.get(c, (0, ""))[0] == 1 for c in checks)
    rows.append((sid, meta["property_broken"], checks, res, ok, meta.get("not_caught_by", []), meta.get("note", "")))
    print(sid, "OK" if ok else "MISSED", {c: r[0] for c, r in res.items()}, flush=True)
    if "apply" in out and not res:
        print(out)
if not sel and not shard:
    with open("seeded/INDEX.md", "w") as f:
        f.write("# Seeded property-breaking changes and the checks that catch them\n\n")
        f.write("Every change compiles (with and without `verif-hooks`), passes the repository's 90 tests, and comes with a demonstration that fails with it and passes without it (`demo.rs`, `HOWTO.txt`). `rc=1` = the quick check reports a `VIOLATION` with the change applied to /repo (regression run by `tools/run_seeded.py`; the tree is reverted afterwards).\n\n")
        f.write("| id | breaks | caught by (quick) | first violation class | also tried, not caught (expected: other property) | note |\n|---|---|---|---|---|---|\n")
        for sid, prop, checks, res, ok, missed, note in rows:
            f.write("| %s | %s | %s | %s | %s | %s |\n" % (sid, prop, ", ".join("%s rc=%d" % (c, res.get(c, (9, ""))[0]) for c in checks), "; ".join("%s: %s" % (c, res.get(c, (9, ""))[1]) for c in checks[:2]), ", ".join(missed), note.replace("|", "/")))
    print("wrote seeded/INDEX.md")
