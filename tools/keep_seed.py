#!/usr/bin/env python3
"""usage: keep_seed.py <mutdir> <seed-id> <property> <caught_by comma list> <missed_by comma list or -> [note]
Copies patch.diff / demo.rs / HOWTO.txt into /verif/seeded/<seed-id>/ and writes meta.json."""
import json, os, shutil, sys
mut, sid, prop, caught, missed = sys.argv[1:6]
note = sys.argv[6] if len(sys.argv) > 6 else ""
dst = "/verif/seeded/" + sid
os.makedirs(dst, exist_ok=True)
for f in ("patch.diff", "demo.rs", "HOWTO.txt"):
    if os.path.exists(os.path.join(mut, f)):
        shutil.copy(os.path.join(mut, f), os.path.join(dst, f))
src_meta = {}
try:
    src_meta = json.load(open(os.path.join(mut, "meta.json")))
except Exception:
    pass
meta = {
    "id": sid,
    "property_broken": prop,
    "origin": "fresh sub-agent given only the property text and a scratch worktree" if src_meta else "written by hand (revert / variation of a repaired defect)",
    "summary": src_meta.get("summary", note),
    "needs_to_manifest": src_meta.get("needs_to_manifest", ""),
    "files_changed": src_meta.get("files_changed", []),
    "confirmed_by_me": {
        "how": "tools/verify_seed.sh in the scratch worktree: patch applies, builds with and without --features verif-hooks, `cargo test --workspace --no-fail-fast --offline` = 90 passed with the change, demo fails with the change and passes without",
        "then": "tools/try_mutant.sh <patch> quick <checks>: patch applied to /repo's working tree, checks run, tree reverted (git checkout -- .)",
    },
    "caught_by_quick_checks": [c for c in caught.split(",") if c and c != "-"],
    "not_caught_by": [c for c in missed.split(",") if c and c != "-"],
    "note": note,
}
json.dump(meta, open(os.path.join(dst, "meta.json"), "w"), indent=1)
print("kept", sid)
