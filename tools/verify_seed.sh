#!/bin/bash
# usage: tools/verify_seed.sh <worktree> <mutdir>   (mutdir holds patch.diff and demo.rs)
# Confirms in the scratch worktree: patch applies, builds with and without hooks, the 90 tests
# pass with it, the demo fails with it and passes without it.  Prints a one-line verdict.
WT="$1"; M="$2"
cd "$WT" || exit 2
git checkout -q -- . ; git clean -fdq -- tests examples src common precompile 2>/dev/null
export CARGO_BUILD_JOBS=8
pass_tests() { cargo test --workspace --no-fail-fast --offline 2>&1 | grep -E "^test result: ok. 90 passed" >/dev/null; }
run_demo() { mkdir -p tests; cp "$M/demo.rs" tests/verif_demo.rs; cargo test --offline --features verif-hooks --test verif_demo 2>&1 | grep -E "^test result:" | tail -1; rm -f tests/verif_demo.rs; rmdir tests 2>/dev/null; }
git apply "$M/patch.diff" || { echo "VERDICT $M: patch does not apply"; exit 1; }
# stale generated tables (precompile edits)
if git diff --name-only | grep -q -E "^precompile/|opening_lines.txt"; then rm -f target/*/build/chess-*/out/*.rs; fi
b1=$(cargo build --offline 2>&1 | grep -c "^error")
b2=$(cargo build --offline --features verif-hooks 2>&1 | grep -c "^error")
if pass_tests; then t=pass; else t=FAIL; fi
d_with=$(run_demo)
git checkout -q -- . 
if git -C "$WT" diff --quiet; then :; fi
if grep -q -E "^precompile/|opening_lines.txt" <(cd "$WT"; git apply --numstat "$M/patch.diff" | awk '{print $3}'); then rm -f target/*/build/chess-*/out/*.rs; fi
d_without=$(run_demo)
echo "VERDICT $M: build_errors=$b1/$b2 tests_with_change=$t demo_with_change=[$d_with] demo_without=[$d_without]"
