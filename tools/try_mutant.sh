#!/bin/bash
# usage: tools/try_mutant.sh <patch.diff> <tier> <Cxx> [Cyy ...]
# Applies the patch to /repo's working tree, runs the given checks, reverts the tree.
# Prints one line per check: "<Cxx> rc=<exit> <first VIOLATION / summary line>".
set -u
PATCH="$1"; TIER="$2"; shift 2
cd /repo || exit 2
if [ -n "$(git status --porcelain)" ]; then echo "repo working tree is not clean"; exit 2; fi
if git apply --check "$PATCH" 2>/dev/null; then git apply "$PATCH"
elif git apply -3 "$PATCH" >/dev/null 2>&1 && ! grep -rq '^<<<<<<<' src precompile common 2>/dev/null; then git reset -q; echo "(patch applied with 3-way merge)"
else git checkout -- . ; echo "patch does not apply: $PATCH"; exit 2; fi
# evidence / replays written while a change is applied are not evidence about /repo: keep the real ones aside
EVBAK=$(mktemp -d /tmp/verif-evbak-XXXXXX); cp -a /verif/evidence/. "$EVBAK"/ 2>/dev/null
trap 'cd /repo && git checkout -- . && git clean -fdq -- src common precompile 2>/dev/null; rm -rf /verif/evidence; mkdir -p /verif/evidence; cp -a "$EVBAK"/. /verif/evidence/; rm -rf "$EVBAK"' EXIT
cd /verif
for P in "$@"; do
  out=$(./check "$P" "$TIER" 2>&1); rc=$?
  line=$(echo "$out" | grep -m1 -E "violation class=|MACHINERY-ERROR" | cut -c1-260)
  echo "$P rc=$rc $(echo "$out" | grep -m1 -E '^\[C[0-9]+ ' | cut -c1-110) :: $line"
done
