#!/bin/bash
# Runs every quick check on /repo's current tree (must be clean) and reports; evidence/ is rewritten.
cd /verif
if [ -n "$(git -C /repo status --porcelain)" ]; then echo "/repo is not clean"; exit 2; fi
bad=0
for p in C01 C02 C03 C04 C05 C06 C07 C08 C09 C10 C11 C12 C13 C14 C15 C16 C17 C18 C19; do
  s=$(date +%s); out=$(./check $p "${1:-quick}" 2>&1); rc=$?
  echo "$p rc=$rc $(( $(date +%s)-s ))s $(echo "$out" | grep -m1 -E '^\[C' | cut -c1-130)"
  if [ $rc -ne 0 ]; then bad=1; echo "$out" | grep -E "VIOLATION|MACHINERY|KNOWN" | head -5; fi
done
exit $bad
