#!/usr/bin/env python3
"""Generates /verif/MANIFEST.json from the table below (single source of truth)."""
import json, sys

HOOK_COMMITS = ["99d9b59", "b32f351", "81bce45", "bd0de94", "85d1c03"]

WALK_NOTE = ("Trusted base: the reference model refchess (validated against the published perft tables at the start "
             "of every run), the binding layer (public API only), rustc. Bounded: only the listed seeds/families/depths; "
             "the build-time random tables are the ones this build drew.")

CHECKS = {
 "C01": dict(tech="explicit-state lock-step exploration of the real generator against a reference rules model (bounded exhaustive)",
   text="Every legal move sequence to the per-seed depth from ~42 tree seeds plus every member of the castle / en-passant matrices (thorough: complete matrices and all 3-men positions) is enumerated; at every state the complete move list of the real generator (arbitrated by a brand-new generator on any mismatch) is compared as a multiset with an independent mailbox rules model validated on published perft tables. Enumerated families added after seeded changes: convergent capture-promotions with one pawn pinned, castle-shaped rook / queen moves, ep-only-reply. Round 5: crowded armies (16 men with 2-3 queens against a king two squares away), trees at the end of long games with an en-passant capture pending.",
   ref="DESIGN.md §4 C01"),
 "C02": dict(tech="explicit-state exploration with one long-lived generator per worker + exhaustive replay of all key-colliding pairs",
   text="The same bounded state space is walked with generators that are never reset; every answer (move list, attack map of both colours) is compared with the model and arbitrated by a brand-new generator; every pair of distinct positions observed under one (key, colour) is replayed in both orders on new generators. Further passes: a single generator asked about every explored state in key order; twins (same placement, other ep / rights) in both orders; convergent promotions; arrangements and legal positions whose keys differ in exactly one bit (constructed by Gaussian elimination over GF(2) on the black-box-read key constants) put to one generator in both orders.",
   ref="DESIGN.md §4 C02"),
 "C03": dict(tech="explicit-state lock-step exploration: every transition replayed on the real board and compared with the model successor",
   text="For every state of the bounded space and every legal move the real apply is executed and placement, castling rights, en-passant target and turn are compared with the model successor. Also: castle-shaped rook / queen moves, and 300..600-ply games replayed by apply alone (nothing else touches the board) compared with the model after every ply. Round 5: replayed games in which ply p is a double step or a right-losing rook move for every p within 3 of 256 / 512 / 1024 / 2048; 1300- and 2300-ply replays.",
   ref="DESIGN.md §4 C03"),
 "C04": dict(tech="stateless nested apply/undo DFS over all paths (no state merging) with full observable snapshots",
   text="All paths to the per-seed depth are walked as one nested apply/undo DFS on a single board; a full snapshot of every public observable is compared after every undo at every nesting depth, after undo of pseudo-legal transient moves, and around every query routine; small trees at the end of pre-rolled games of 250..520 plies (from the start position and from a root where an en-passant capture is two plies away; never merged, cache-cold generators), after which the whole game is unwound against a snapshot stack. Round 5: 1300- and 2300-ply games opening with double steps, unwound completely.",
   ref="DESIGN.md §4 C04"),
 "C05": dict(tech="explicit-state exploration with differential key oracle (play vs direct set-up vs first arrival) + exhaustive constant-table pair check",
   text="At every state the running key is compared with the key of the same position set up directly and, on merged arrivals, with the key recorded on first arrival; all pairs of the 768+64+16 black-box-read constants are checked pairwise distinct and non-zero. Also: keys compared with a direct set-up along all register / unregister histories (the key must not depend on how often a position was counted) and after every ply of 300..600-ply games replayed by apply alone. Round 5: keys compared while unwinding the 1300- / 2300-ply games.",
   ref="DESIGN.md §4 C05"),
 "C06": dict(tech="explicit-state lock-step exploration; verdicts and annotations compared with the model at every state",
   text="At every state of the bounded space: in-check for both colours, game_ending and the check/mate annotation of every legal move are compared with the model, using long-lived generators; plus a single-generator verdict pass, twin passes, the terminal family and the enumerated family in which a checking double step can only be answered by capturing en passant.",
   ref="DESIGN.md §4 C06"),
 "C12": dict(tech="explicit-state exploration evaluating state invariants in every visited and transient state",
   text="Representation invariants are evaluated on a public-observer snapshot in every visited state and in every transient state reached by a pseudo-legal (king left in check) move between apply and undo; the long games of C04 are unwound with the rights compared at every ply. Round 6: every move the engine itself lists is applied and the invariants evaluated on the result.",
   ref="DESIGN.md §4 C12"),
 "C13": dict(tech="explicit-state lock-step exploration; labels compared with an independent SAN writer",
   text="At every state every label produced by the engine is compared with the model's SAN and labels are checked pairwise distinct. Also every tree seed and its one-ply neighbours with 98 and 99 plies on the half-move clock (never merged), the ep-only-reply family and a seed where only the knight promotion mates. Round 6: the 218-move nine-queen position and its colour-swapped image (move lists longer than 128).",
   ref="DESIGN.md §4 C13"),
 "C19": dict(tech="explicit-state lock-step exploration; render / read-back round trip on every legal move",
   text="At every state every legal move's coordinate text is compared with the model's, checked distinct, read back through the (hook-exposed) bridge reader and re-applied; the resulting position must equal the original move's. Also the family of castle-shaped rook / queen moves (e1/e8 to the c- or g-file while castling rights exist). Round 5: trees at the end of long games (ply counts past 255) with an en-passant capture pending.",
   ref="DESIGN.md §4 C19"),
}

CHECKS.update({
 "C10": dict(tech="exhaustive enumeration of the configuration space (seed x depth x generator history x pool size) against reference perft",
   text="Every combination of 15 seeds (the published perft suite plus targeted ones), depth 0..D, generator history {brand-new, served smaller depths, served all earlier seeds} and rayon pool size {1,2,4,16} is executed on the real count_positions and compared with the perft sums of the reference model (itself checked against the published tables and the figures quoted in the property). One more history: a generator that first answered every other public query (attack maps, in-check, game ending, plain and annotated lists, notation) about the same board. Round 5: rights twins (same men, fewer castling rights) counted on one generator in both orders.",
   ref="DESIGN.md §4 C10", note="Trusted base: refchess perft (validated on published tables). Bounded by depth per seed; CLI output is covered in the thorough tier only."),
 "C11": dict(tech="complete enumeration of square x occupancy for every slider / leaper through the public attack query",
   text="For every square and every subset of the full rook / bishop rays (edge squares included, a superset of the 102,400 + 5,248 relevant-mask cases) times 3 off-ray noise patterns, for queens on the rook and bishop products with the other ray set empty / full, and for knights and kings with every subset of enemy pieces on their targets, the real get_attack_targets answer is compared with a ray walk; union semantics with friendly blockers are compared on every walked position. Also: for each of the 64 key bits an arrangement whose position key differs from a base arrangement in exactly that bit (GF(2) construction, verified on real boards), all put to one generator in both orders, so that an attack cache comparing only part of the key is exposed. Round 5: generators constructed inside rayon pools of 29 sizes answer the rook / bishop / queen queries on every square.",
   ref="DESIGN.md §4 C11", note="Only the magic constants drawn by this build are examined (thorough rebuilds further draws). No answer can come from the attack cache (generator renewed on any key repeat)."),
 "C16": dict(tech="explicit-state search over (position, half-move clock) with live boards + boundary-preloaded tree walks, step-local clock oracle",
   text="Every transition of the tree-seed walk, of walks from boards preloaded with half-move clocks 47..101 and ply counts 0..511, and of a BFS/DFS to fixpoint over (position, half-move clock <= 104) on closed locked-pawn graphs (games up to 311 plies) is executed on the real board; the clock step, its undo and the draw verdict (clock >= 100) are compared with the rule in every state; games of 255..1100 plies are unwound with both clocks compared at every ply. Round 6: one long-lived Game is polled after every ply along all six-ply king paths from boards pre-loaded with 93..99 plies.",
   ref="DESIGN.md §4 C16", note="Mated/stalemated states at clock >= 100 are not judged. Overflow checks are on in the harness build so a wrap aborts and is reported."),
 "C18": dict(tech="complete enumeration of the evaluation's table domain, of walked positions, of the material lattice extremes and of terminal position x remaining depth",
   text="Every piece-square cell in both contexts and both colours, every walked position against its colour-swapped rotated image, every legal one-side material vector at best squares against a minimal opponent, and every collected mated / stalemated position at remaining depth 0..255 are evaluated on the real functions. Terminal positions are first put to the same generator with 100 plies on the half-move clock (not judged), then scored with a fresh clock. Round 5: every lattice board is compared with its colour-swapped rotated image, on best and on worst cells.",
   ref="DESIGN.md §4 C18", note="Extreme boards place pieces greedily on the best cells read black-box from the table part."),
})

CHECKS.update({
 "C07": dict(tech="exhaustive enumeration of (position, depth, pool size) cases on the real search with legality / error / snapshot oracles",
   text="Every state within 1-2 plies of 16 seeds, every collected mated / stalemated / single-move / in-check state (cap per class reported), depth 0..3 and rayon pools of 1,2,3,8,16,64 threads: each case is one real alpha_beta_search call; the answer must be a legal move of the model or the declared error, never a panic or a hang (watchdog), and the caller's board snapshot must be unchanged. Round 5: single-line fortresses searched at every interesting depth up to 255; double-en-passant family.",
   ref="DESIGN.md §4 C07", note="Reduced LRU capacity hook for generators; hang = no answer within 600 s."),
 "C08": dict(tech="exhaustive enumeration of positions x depths x search histories, each compared with a cache-free exhaustive minimax oracle",
   text="Brand-new context: seed roots, their neighbours and small endgames at depth up to 5; reused context: ALL histories search - any move - any reply - search (two rounds in thorough) from six seeds and, at depth 4 (5 thorough), from small positions with loose material, plus king-path games and engine-vs-engine lines; every search's score and move are compared with an un-pruned minimax (memoised on (position, plies left) from depth 4 and cross-checked against the plain recursion) over the model's moves using the engine's leaf evaluation. Round 5: colour-swapped endgames and deep mates for both colours at depth 6 (7 thorough).",
   ref="DESIGN.md §4 C08", note="Leaf evaluation is the engine's own (C18/C06 cover it); clocks stay far from the draw threshold."),
})

CHECKS.update({
 "C09": dict(tech="stateless model checking of the real rayon search tasks under a controlled scheduler with iterative preemption bounding",
   text="For each configuration (position, depth, empty or warmed cache) the real alpha_beta_search runs inside its own rayon pool with every root task parked at each shared-cache read / store; all schedules with at most p preemptions (p = 1 quick, 2 thorough on the small ones) and all / deviation-bounded task orders are enumerated by re-execution; the exploration starts from the index order, the reverse order and every rotation of the task order; the (move, score) outcome must be unique, no schedule may panic or hang, and free-running pools of 1,2,3,8,16,64 threads (and two passes with read critical sections stretched so that writers queue behind readers) must give the same outcome under a hang watchdog. Lock granularity: a Promela model generated from the lock shapes observed on the real search is explored exhaustively by spin for deadlocks (writer- and reader-preferring locks).",
   ref="DESIGN.md §3.7, §3.7b, §4 C09", note="On the code itself the granularity is one shared-cache operation; individual lock acquisitions are explored on the generated model only. In reduced configurations only operations on keys touched by two tasks are choice points (classification iterated to a fixpoint; validated against the all-points mode on the small configurations). Determinism of the harness is checked by replaying the default schedule twice per configuration."),
})

CHECKS.update({
 "C17": dict(tech="exhaustive enumeration of register / unregister operation histories against a multiset-of-positions model",
   text="From nine seeds (true recurrence, triangulation, castling-right loss, en-passant opportunity in both colours, double step followed by a lost right in both colours, single pawn step, capture) every history over the alphabet {quiet menu move + register, unregister + take back} up to length 9 (11 thorough) is executed on one real board; returned count, reported count and draw verdict are compared with a multiset of full positions after every operation; every menu-move game containing a third occurrence is also played through the Game API and must be reported drawn. Round 5: the Game API part runs with both parities of the move counter.",
   ref="DESIGN.md §4 C17", note="Positions are registered after the move and the turn toggle. Multiplicities above 3 are not judged."),
})

CHECKS.update({
 "C15": dict(tech="complete enumeration of the compiled book trie and of engine queries per book choice, against the rules model",
   text="Every node and edge of the compiled opening-book trie is walked through the real Book API and each edge checked for legality in the model position reached from the standard start; at every node a Game that played the prefix is asked for its move once per possible random book choice (choice seam), at one-move departures once, and for all seed positions / positions near the start supplied through Game::from_board with empty and book-prefix histories; every answer must be a legal move. The long-lived game paths include a caged king (single legal move) two pawns up, long enough for the successor of the only move to have occurred twice.",
   ref="DESIGN.md §4 C15", note="Depth-0 games are excluded (DepthTooLow, C07). The random book index is replaced by the guarded choice seam so that all choices are enumerated."),
})

CHECKS.update({
 "C14": dict(tech="exhaustive enumeration of inputs per state (all 4096 coordinate pairs, generated string sets, command-line lines) against the rules model",
   text="For every tree seed and child position (grandchildren in thorough): all 4096 coordinate pairs, every legal label, every label of the other side / parent position, every near-miss image of a legal label under a fixed operator list, and junk are submitted to the real Game API; every label the engine prints is also typed through the real stdin reader (fd 0 replaced by a pipe) and executed; accepted inputs must yield exactly the model successor, clocks and history entry, rejected ones must leave the full snapshot and history untouched. Thorough: the real `chess pvp` binary is driven over stdin along scripted games and its printed boards are compared with the model. Round 5: members of the ep-discovery, ep-only-reply and castle-shaped families are states too. Round 6: the many-queens positions are states too.",
   ref="DESIGN.md §4 C14", note="Strings that denote a legal move only under a lenient reading are not judged. The Game object is reused across inputs by taking accepted moves back; any mismatch after taking back discards the object."),
})

NOT_YET = {}

def main():
    allp = ["C%02d" % i for i in range(1, 20)]
    checks = []
    for p in allp:
        if p not in CHECKS: continue
        c = CHECKS[p]
        checks.append({
            "property_id": p,
            "quick_cmd": "./check %s quick" % p,
            "thorough_cmd": "./check %s thorough" % p,
            "evidence_file": "/verif/evidence/%s.json" % p,
            "replay_cmd_template": "./check replay {path}",
            "engine": "mc",
            "level_claimed": {"category": "model_checking", "text": c["text"], "design_ref": c["ref"]},
            "level_note": c.get("note", WALK_NOTE),
            "technique": c["tech"],
        })
    na = []
    for p in allp:
        if p in CHECKS: continue
        na.append({"property_id": p, "reason": NOT_YET.get(p, "check not built yet in this round (planned in DESIGN.md §4; not a statement that the technique cannot apply)")})
    m = {
        "version": 1,
        "setup_cmd": "./check build",
        "hooks": {
            "guard": "verif-hooks",
            "enable": "cargo feature `verif-hooks` of package chess, switched on by /verif/mc/Cargo.toml (chess = { path = \"/repo\", features = [\"verif-hooks\"] }); off by default",
            "baseline_off_cmd": "cd /repo && cargo test --workspace --no-fail-fast --offline",
            "source_commits": HOOK_COMMITS,
            "add_only": True,
        },
        "engines": [{"name": "mc", "path": "/verif/mc", "serves_properties": sorted(CHECKS.keys()),
                     "kind_free_text": "hand-rolled explicit-state / stateless explorer in Rust linking the real chess crate; reference model refchess explored in lock-step; controlled scheduler for the rayon search tasks; spin on a Promela model generated from observed lock traces (C09)"}],
        "checks": checks,
        "not_applicable": na,
        "notes": "All verdicts come from exhaustive enumeration of a stated bounded space (see DESIGN.md). known_findings.json lists genuine defects (fixed ones suppress nothing).",
    }
    json.dump(m, open("/verif/MANIFEST.json", "w"), indent=1)
    print("wrote MANIFEST.json: %d checks, %d not_applicable" % (len(checks), len(na)))

if __name__ == "__main__":
    main()
